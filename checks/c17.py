"""C17 - the compile cache is transparent.

Simulation: a scratch root with src/ (the .asn files of the current variant)
and cache/.  Actors are compiler processes - forks of the driver running
under the vshim libc interposer - that call the real
asn1tools.compile_files(..., cache_dir=...) against real diskcache / sqlite on
the real filesystem and report the behaviour digest of what they got.  A
history interleaves edits of the sources, option changes, compiles, compiles
killed at a libc call (KILL / TORN write) or at a Python tick, compiles under
I/O errors, damage of cache files between processes, and wipes.  Reference
model: the uncached compile of the same files with the same options.
"""

import copy
import gc
import hashlib
import json
import os
import random
import re
import shutil
import signal
import tempfile
import time

from vsim import steps, world, specgen, shrink, fsfault
from vsim.digest import ProbeSet
from vsim.rng import mix
from vsim.runner import Engine, Result
from vsim.steps import exc_outcome

CODECS = ['ber', 'der', 'per', 'uper', 'oer', 'jer', 'xer', 'gser']
CHILD_WALL_S = 25      # then the call is made again with a longer limit
ERRNOS = {'ENOSPC': 28, 'EIO': 5, 'EDQUOT': 122}

OPTION_TYPES = [
    ['OptE9001', 'OptE9001 ::= SEQUENCE { e9002 ENUMERATED { aa9003(0), '
                 'bb9004(1) } DEFAULT bb9004, x9005 INTEGER }'],
    ['OptA9006', 'OptA9006 ::= SEQUENCE { id9007 INTEGER, '
                 'data9008 ANY DEFINED BY id9007 }'],
    ['OptS9009', 'OptS9009 ::= SEQUENCE { s9010 UTF8String DEFAULT '
                 '"é è", n9011 INTEGER }'],
]
TRAILER_HEAD = 'ModZ DEFINITIONS ::= BEGIN Zb9012 ::= INTEGER --'
TRAILER_TAIL = '(0..7)\nEND\n'


def adbc_for(module_name):
    """any_defined_by_choices argument (JSON form: [[location, {k: v}]])."""

    return [[[module_name, 'OptA9006', 'data9008'],
             [[1, 'INTEGER'], [2, 'BOOLEAN']]]]


def adbc_arg(jform):
    if not jform:
        return None

    return {tuple(location): {k: v for k, v in choices}
            for location, choices in jform}


def extra_probes(numeric_enums):
    return [('OptA9006', {'id9007': 1, 'data9008': 5}),
            ('OptA9006', {'id9007': 2, 'data9008': True}),
            ('OptA9006', {'id9007': 1, 'data9008': b'\x02\x01\x05'}),
            ('OptE9001', {'x9005': 3}),
            ('OptE9001', {'x9005': 3, 'e9002': 0 if numeric_enums
                          else 'aa9003'}),
            ('OptS9009', {'n9011': 1}),
            ('Zb9012', 9)]


class InprocTimeout(BaseException):
    pass


class Stub(object):
    """Replaces parse + compile inside a compiler child by the result the
    same real code produced in the driver for the same files and options
    (only when the call's arguments are the expected ones), so that a child
    that is going to be killed anyway does not repeat 100+ ms of copy-on-write
    heavy work.  The cache logic (_compile_files_cache: key, lookup, store)
    and diskcache/sqlite stay real."""

    def __init__(self, spec, codec, options):
        self.spec = spec
        self.codec = codec
        self.adbc = adbc_arg(options.get('adbc'))
        self.numeric_enums = options.get('numeric_enums', False)

    def __enter__(self):
        import asn1tools.compiler as module

        self.module = module
        # The function _compile_files_cache parses with (whichever exists
        # in the tree under test).
        self.parse_name = ('_parse_files_contents'
                           if hasattr(module, '_parse_files_contents')
                           else 'parse_files')
        self.saved = (getattr(module, self.parse_name), module.compile_dict)
        real_parse, real_compile = self.saved
        marker = object()
        stub = self

        def parse_files(filenames, encoding='utf-8'):
            return (marker, filenames, encoding)

        def compile_dict(specification, codec='ber',
                         any_defined_by_choices=None, numeric_enums=False):
            if isinstance(specification, tuple) and specification \
                    and specification[0] is marker:
                if (codec == stub.codec
                        and any_defined_by_choices == stub.adbc
                        and numeric_enums == stub.numeric_enums):
                    return stub.spec

                specification = real_parse(specification[1],
                                           specification[2])

            return real_compile(specification, codec,
                                any_defined_by_choices, numeric_enums)

        setattr(module, self.parse_name, parse_files)
        module.compile_dict = compile_dict

    def __exit__(self, *exc):
        setattr(self.module, self.parse_name, self.saved[0])
        self.module.compile_dict = self.saved[1]

        return False


def make_probes(paths, codec, options, seed):
    import asn1tools

    parsed = asn1tools.parse_files(paths, options.get('encoding', 'utf-8'))

    return ProbeSet(parsed, seed, codec,
                    options.get('numeric_enums', False), k=1,
                    max_types=options.get('probe_types', 10),
                    extra=extra_probes(options.get('numeric_enums', False)))


def behaviour(paths, codec, options, cache_dir, seed, keep=None,
              probes=None):
    """Runs the real compile_files and returns a JSON-able description of
    how the result behaves (or of the error).  keep: optional list that
    receives the Specification object."""

    import asn1tools

    try:
        spec = asn1tools.compile_files(
            paths, codec,
            any_defined_by_choices=adbc_arg(options.get('adbc')),
            encoding=options.get('encoding', 'utf-8'),
            cache_dir=cache_dir,
            numeric_enums=options.get('numeric_enums', False))
    except Exception as e:
        outcome = exc_outcome(e)

        return {'outcome': 'err', 'type': outcome[1], 'text': outcome[2][:300]}

    if not isinstance(spec, asn1tools.compiler.Specification):
        return {'outcome': 'not-a-specification', 'repr': repr(spec)[:200]}

    if keep is not None:
        keep.append(spec)

    if probes is None:
        try:
            probes = make_probes(paths, codec, options, seed)
        except Exception:
            # The files do not even parse - yet a Specification came back.
            return {'outcome': 'ok', 'digest': 'no-probes-files-do-not-parse',
                    'lines': []}

    try:
        lines = probes.apply(spec)
    except Exception as e:
        # A damaged pickle can load as an object that is not usable at all.
        return {'outcome': 'unusable', 'text': repr(e)[:300]}

    return {'outcome': 'ok',
            'digest': hashlib.sha256('\n'.join(lines).encode()).hexdigest(),
            'lines': lines}


def samesize_variant(files, index):
    """A variant with exactly the same file sizes: one letter of the
    hand-written probe member changed (x9005 -> y9005, z9005, ...)."""

    letter = 'yzwvu'[index % 5]

    return [[name, text.replace('x9005 INTEGER', letter + '9005 INTEGER')]
            for name, text in files]


def lexical_variant(files, index):
    """Edits that a normalising key (whitespace collapsed, comments
    stripped, case folded, line ends unified) could take for insignificant
    although they change the codec: white-space inside a string literal,
    an identifier that differs in case only."""

    old_default = 'DEFAULT "é è"'
    new_default = ['DEFAULT "é  è"', 'DEFAULT "é\tè"', 'DEFAULT "é\u00a0è"',
                   'DEFAULT "é è "', None][index % 5]

    if new_default is None:
        # Enumerator aa9003 -> aA9003 (differs in case only).
        return [[name, text.replace('aa9003', 'aA9003')]
                for name, text in files]

    return [[name, text.replace(old_default, new_default)]
            for name, text in files]


def rename_variant(files, index):
    """Variant `index` of a file set: one member identifier renamed
    everywhere (changes every codec's decoded values)."""

    if index == 0:
        return files

    text = '\n'.join(text for _, text in files)
    names = sorted(set(re.findall(r'\b(?:a|b|m|fld)[A-Za-z-]*\d+\b', text)))
    names = [n for n in names if not n.endswith('-')]

    if not names:
        return files + [['extra{}.asn'.format(index),
                         'ModV{0} DEFINITIONS ::= BEGIN V{0} ::= INTEGER '
                         'END\n'.format(index)]]

    target = names[(index * 7) % len(names)]
    pattern = re.compile(r'\b' + re.escape(target) + r'\b(?![-\w])')

    # ... and one member of the hand-written probe type, so that every
    # variant is guaranteed to differ on the probe set of every codec.
    return [[name, pattern.sub(target + 'v' + str(index), text).replace(
        'x9005 INTEGER', 'x9005v{} INTEGER'.format(index))]
            for name, text in files]


def merge_into(result, sub):
    result.stats.update(sub.stats)
    result.violations.extend(sub.violations[:2])
    result.merge_distinct(sub.distinct.items())
    result.ticks += sub.ticks
    result.evaluations += sub.evaluations
    result.log.extend(sub.log)


class C17(Engine):
    property_id = 'C17'
    level = 'exploration'
    rule = ('one evaluation = one compile_files(cache_dir=...) call made by '
            'a forked compiler process on a shared cache directory, compared '
            'with the uncached compile of the same files and options '
            '(behaviour digest); histories of <= 8 operations: edit, '
            'compile with varying codec / numeric_enums / '
            'any_defined_by_choices / encoding / file boundaries, compile '
            'killed at libc call n (KILL or TORN write) or at Python tick n, '
            'compile under ENOSPC/EIO/EDQUOT or short writes, truncate / '
            'delete / zero-page damage of cache.db, -wal, -shm, .val files, '
            'wipe, sources rewritten at Python tick n of a running compile, '
            'the same files in another order; plus sweeps that execute EVERY libc crash point (KILL and '
            'TORN) and every Python tick crash point of six fixed '
            'scenarios; non-trivial = a compile that follows at least one '
            'other operation on the same directory; distinct = distinct '
            '(directory-state hash before the call, call arguments, fault)')
    assumptions = [
        'crash = process kill: completed writes survive (page cache); power '
        'loss and concurrent writers on one directory are not simulated '
        '(a concurrent EDITOR of the source files is: operation '
        'compile-edit, the call it overlaps is not judged, later calls are)',
        'behavioural equality is decided on a seeded probe set',
        'single-bit flips of cache.db / -wal / .val run as separately '
        'generated histories (compile, flip 1-2 bits, compile); any wrong '
        'codec there is a violation (D5 was fixed by a checksum)',
    ]
    real_stub = {
        'real': ['asn1tools.compile_files, parser, compilers', 'diskcache',
                 'sqlite3', 'pickle', 'kernel filesystem on a scratch '
                 'directory', 'compiler processes (fork)'],
        'stub': ['libc write/pwrite/fsync/ftruncate/rename/unlink/open '
                 'faults (vshim LD_PRELOAD interposer)',
                 'os.urandom in compiler processes (seeded PRNG)'],
    }
    tiers = {
        'quick': dict(runs=72, wall_cap=170, chunk=1, minimise_s=60),
        'thorough': dict(runs=10000, wall_cap=3300, chunk=2, minimise_s=180),
    }

    # -- plan -------------------------------------------------------------------

    def plan(self, tier, seed, runs):
        items = []
        scenarios = range(6) if tier == 'thorough' else [seed % 6]
        span = 24

        # Every libc call of the crashing operation is a crash point, in
        # KILL and in TORN mode (exhaustive).  A kill only matters through
        # the directory state it leaves, which changes at libc calls, so
        # Python-tick crash points are largely equivalent to them; they are
        # executed with a stride in the quick tier and completely in the
        # thorough tier.
        stride = 24 if tier == 'quick' else 1

        kill_only = []

        if tier == 'quick':
            # A second scenario with KILL crash points only: the one with
            # the richest history (populate, edit, crash, verify, edit
            # back, verify), unless it is the main one already.
            kill_only = [4 if (seed % 6) != 4 else 1]

        for scenario in kill_only:
            for start in range(1, 400, span):
                # ... on a LARGE module (value file path, long keys).
                items.append({'kind': 'sweep', 'scenario': scenario,
                              'mode': 'KILL', 'start': start,
                              'end': start + span, 'stride': 1,
                              'large': True,
                              'seed': mix(seed, 'sweep-large', scenario)})

        for scenario in scenarios:
            for mode in ('KILL', 'TORN'):
                for start in range(1, 400, span):
                    items.append({'kind': 'sweep', 'scenario': scenario,
                                  'mode': mode, 'start': start,
                                  'end': start + span, 'stride': 1,
                                  'seed': mix(seed, 'sweep', scenario)})

            for start in range(1, 4000, span * stride):
                items.append({'kind': 'sweep', 'scenario': scenario,
                              'mode': 'tick', 'start': start,
                              'end': start + span * stride,
                              'stride': stride,
                              'seed': mix(seed, 'sweep', scenario)})

        # The sources rewritten by another actor at (every / every 16th)
        # Python tick of a running compile, into an empty and into a
        # populated directory; then put back and compiled again.
        edit_stride = 16 if tier == 'quick' else 1

        for populated in (False, True):
            for start in range(1, 2000, span * edit_stride):
                items.append({'kind': 'editsweep', 'populated': populated,
                              'start': start,
                              'end': start + span * edit_stride,
                              'stride': edit_stride,
                              'seed': mix(seed, 'editsweep', populated)})

        for index in range(max(1, runs // 3)):
            items.append({'kind': 'bitflip',
                          'seed': mix(seed, 'C17-bitflip', index)})

        items.extend(Engine.plan(self, tier, seed, runs))

        return items

    def run_item(self, item):
        if item['kind'] == 'random':
            return self.execute(self.gen_case(item['seed']))

        if item['kind'] == 'bitflip':
            return self.execute(self.gen_bitflip_case(item['seed']))

        if item['kind'] == 'editsweep':
            return self.run_edit_sweep(item)

        return self.run_sweep(item)

    def run_edit_sweep(self, item):
        result = Result()
        files, module_name = self.gen_family(mix(item['seed'], 'scenario'),
                                             False)
        variants = [files, samesize_variant(files, 1),
                    rename_variant(files, 1)]
        rng = random.Random(mix(item['seed'], 'editsweep-codecs'))
        c1, c2 = rng.sample(CODECS, 2)
        args = {'codec': c1, 'numeric_enums': False, 'adbc': None,
                'encoding': 'utf-8', 'proc': 'inproc', 'stub': False}
        memo = {}

        for n in range(item['start'], item['end'], item['stride']):
            target = 1 + (n // item['stride']) % 2
            ops = [dict(args, op='compile-edit',
                        fault={'kind': 'edit-at-tick', 'n': n,
                               'variant': target}),
                   {'op': 'edit', 'variant': 0}, dict(args, op='compile'),
                   {'op': 'edit', 'variant': target},
                   dict(args, op='compile')]

            if item['populated']:
                ops.insert(0, dict(args, codec=c2, op='compile'))

            case = {'variants': variants, 'ops': ops, 'seed': item['seed'],
                    'module': module_name, 'mtime': 'frozen'}
            sub = self.execute(case, memo=memo)
            merge_into(result, sub)
            result.stats['sweep-edit-points'] += 1

            if result.violations:
                break

        return result

    # -- families ---------------------------------------------------------------

    def gen_family(self, run_seed, large):
        knobs = {'n_types': 40 if large else random.Random(
            mix(run_seed, 'size')).choice([2, 3, 4]),
            'max_members': 4, 'max_depth': 2}
        rng = random.Random(mix(run_seed, 'features'))
        features = set(
            [f for f in specgen.ALL_FEATURES if rng.random() < 0.5]
            + ['seq', 'int', 'enum', 'default', 'optional']) - {'imports'}

        if rng.random() < 0.5 and not large:
            features.add('imports')   # several modules = several files

        spec, text, parsed = world.gen_world(run_seed, 'ber',
                                             features=sorted(features),
                                             knobs=knobs)
        # The option-sensitive types go into the FIRST file.
        module = spec['modules'][0]
        module['assignments'].extend(copy.deepcopy(OPTION_TYPES))
        files = [[m['name'] + '.asn', specgen.render_module(m)]
                 for m in spec['modules']]

        return files, module['name']

    def gen_case(self, run_seed):
        knobs = random.Random(mix(run_seed, 'knobs'))
        large = knobs.random() < 0.3
        files, module_name = self.gen_family(run_seed, large)
        variants = [rename_variant(files, i) for i in range(3)]
        # ... two that keep every file's size (an edit a size/mtime based
        # shortcut would not notice) ...
        variants += [samesize_variant(files, 1), samesize_variant(files, 2)]
        # ... two that differ from the original lexically only ...
        lexical = random.Random(mix(run_seed, 'lexical')).sample(range(5), 2)
        variants += [lexical_variant(files, i) for i in lexical]
        # ... and two with equal concatenated bytes but different file
        # boundaries.
        joined = [[files[0][0], ''.join(t for _, t in files)
                   + TRAILER_HEAD + TRAILER_TAIL]]
        split = [[files[0][0], ''.join(t for _, t in files) + TRAILER_HEAD],
                 ['tail.asn', TRAILER_TAIL]]
        variants += [joined, split]
        # ... the same files in another order, where the order matters: the
        # split module read tail first (does not parse), and one module
        # defined twice (the last definition wins).
        second = samesize_variant(files, 3)[0]
        variants += [list(reversed(split)),
                     [files[0], ['zz-again.asn', second[1]]] + files[1:],
                     [['zz-again.asn', second[1]], files[0]] + files[1:]]
        ops_rng = random.Random(mix(run_seed, 'ops'))
        faults = random.Random(mix(run_seed, 'faults'))
        ops = []
        codecs = ops_rng.sample(CODECS, ops_rng.choice([1, 2, 3]))
        length = ops_rng.choice([3, 4, 6, 8])

        last_args = []

        def compile_args():
            if last_args and ops_rng.random() < 0.4:
                # The previous call again, with exactly one option toggled.
                args = dict(last_args[-1])
                which = ops_rng.choice(['numeric_enums', 'adbc', 'encoding',
                                        'codec'])

                if which == 'numeric_enums':
                    args['numeric_enums'] = not args['numeric_enums']
                elif which == 'adbc':
                    args['adbc'] = None if args['adbc'] \
                        else adbc_for(module_name)
                elif which == 'encoding':
                    args['encoding'] = 'latin-1' \
                        if args['encoding'] == 'utf-8' else 'utf-8'
                else:
                    args['codec'] = ops_rng.choice(codecs)

                args['proc'] = 'inproc' if ops_rng.random() < 0.7 \
                    else 'child'
                last_args.append(args)

                return dict(args)

            args = fresh_args()
            last_args.append(args)

            return dict(args)

        def fresh_args():
            return {'proc': 'inproc' if ops_rng.random() < 0.7 else 'child',
                    'stub': ops_rng.random() < 0.8,
                    'codec': ops_rng.choice(codecs),
                    'numeric_enums': ops_rng.random() < 0.35,
                    'adbc': adbc_for(module_name)
                    if ops_rng.random() < 0.3 else None,
                    'encoding': 'latin-1' if ops_rng.random() < 0.2
                    else 'utf-8'}

        if ops_rng.random() < 0.5:
            ops.append(dict(compile_args(), op='compile'))

        current = 0    # variant on disk at this point of the history

        while len(ops) < length:
            roll = ops_rng.random()

            if roll < 0.13:
                current = ops_rng.randrange(len(variants))
                ops.append({'op': 'edit', 'variant': current})
            elif roll < 0.17 and len(variants) >= 12:
                # The same files given in another order, where the order
                # matters (split module / module defined twice): compiled
                # with the same arguments before and after.
                args = compile_args()
                a, b = ops_rng.choice([(8, 9), (9, 8), (10, 11), (11, 10)])
                ops.append({'op': 'edit', 'variant': a})
                ops.append(dict(args, op='compile'))
                ops.append({'op': 'edit', 'variant': b})
                ops.append(dict(args, op='compile'))
                current = b
            elif roll < 0.25:
                # A concurrent editor: the sources are rewritten while a
                # compile is running (at Python tick n of it), then - most
                # of the time - put back and compiled again.
                args = dict(compile_args(), proc='inproc', stub=False)
                target = faults.choice([v for v in range(len(variants))
                                        if v != current])
                ops.append(dict(args, op='compile-edit',
                                fault={'kind': 'edit-at-tick',
                                       'n': faults.randrange(1, 1800),
                                       'variant': target}))

                if faults.random() < 0.7:
                    ops.append({'op': 'edit', 'variant': current})
                    ops.append(dict(args, op='compile'))
                else:
                    current = target
            elif roll < 0.5:
                ops.append(dict(compile_args(), op='compile'))
            elif roll < 0.72:
                kind = faults.choice(['libc', 'libc', 'tick'])
                fault = {'kind': kind,
                         'n': faults.choice([1, 2, 5, 10, 20, 40, 60, 80,
                                             100, 120, 150, 180])
                         if kind == 'libc' else faults.randrange(1, 260)}

                if kind == 'libc':
                    fault['mode'] = faults.choice(['KILL', 'TORN'])
                    fault['arg'] = faults.choice([-1, 0, 1, 100, 4095])

                ops.append(dict(compile_args(), op='compile-crash',
                                fault=fault))
            elif roll < 0.84:
                mode = faults.choice(['ERR', 'ERR', 'SHORT'])
                fault = {'kind': 'libc', 'mode': mode,
                         'n': faults.choice([1, 3, 10, 30, 60, 90, 130]),
                         'duration': faults.choice([1, 2, 5, 1000])}

                if mode == 'ERR':
                    fault['errno'] = faults.choice(sorted(ERRNOS))
                    fault['arg'] = ERRNOS[fault['errno']]
                else:
                    fault['arg'] = faults.choice([0, 1, 7, 512])

                ops.append(dict(compile_args(), op='compile-io-error',
                                fault=fault))
            elif roll < 0.96:
                ops.append({'op': 'damage',
                            'kind': faults.choice(['truncate', 'truncate',
                                                   'delete', 'zero-page']),
                            'role': faults.choice(['db', 'db', 'wal', 'shm',
                                                   'val[*]']),
                            'fraction': faults.random()})
            else:
                ops.append({'op': 'wipe'})

        ops.append(dict(compile_args(), op='compile'))

        return {'variants': variants, 'ops': ops, 'seed': run_seed,
                'module': module_name,
                # The file system clock is part of the simulation: source
                # files keep one frozen modification time (edits within the
                # same second, cp -p, coarse time stamps), or it advances.
                'mtime': knobs.choice(['frozen', 'frozen', 'advance',
                                       'real'])}

    def gen_bitflip_case(self, run_seed):
        rng = random.Random(mix(run_seed, 'bitflip'))
        large = rng.random() < 0.5
        files, module_name = self.gen_family(run_seed, large)
        codec = rng.choice(CODECS)
        args = {'codec': codec, 'numeric_enums': False, 'adbc': None,
                'encoding': 'utf-8', 'proc': 'inproc'}
        textual = large and rng.random() < 0.6

        if textual:
            # A changed name shows only where its type is probed: all of
            # them in these histories.
            args['probe_types'] = 80

        ops = [dict(args, op='compile')]

        names = sorted(set(re.findall(
            r'\b[a-z][A-Za-z0-9]*(?:-[A-Za-z0-9]+)*\b',
            '\n'.join(text for _, text in files))))
        names = [n for n in names if len(n) >= 3][:400]
        text_kind = rng.choice(['bitflip-text', 'bitflip-name',
                                'bitflip-name'])

        # Several rounds of (flip, compile): damage that goes unnoticed
        # accumulates; damage that is noticed makes the entry be rewritten.
        for _ in range(rng.choice([1, 2, 4, 8] if textual else [1, 1, 2])):
            for _ in range(rng.choice([1, 1, 2])):
                ops.append({'op': 'damage',
                            'kind': text_kind if textual else 'bitflip',
                            'role': 'val[*]' if textual else rng.choice(
                                ['db', 'db', 'wal', 'val[*]', 'val[*]']),
                            'fraction': rng.random(),
                            'bit': rng.randrange(8)})

                if ops[-1]['kind'] == 'bitflip-name':
                    ops[-1]['names'] = names

            if rng.random() < 0.3:
                # Whatever the first call stored besides its own entry is
                # read by a call with another codec / option.
                other = dict(args)

                if rng.random() < 0.5:
                    other['codec'] = rng.choice([c for c in CODECS
                                                 if c != codec])
                else:
                    other['numeric_enums'] = True

                ops.append(dict(other, op='compile'))

            ops.append(dict(args, op='compile'))

        return {'variants': [files], 'ops': ops, 'seed': run_seed,
                'module': module_name, 'bitflip_experiment': True}

    # -- scenarios for exhaustive crash sweeps ----------------------------------

    def scenario_case(self, scenario, seed, large=None):
        if large is None:
            large = scenario == 3

        files, module_name = self.gen_family(mix(seed, 'scenario'), large)
        variants = [files, samesize_variant(files, 1)]
        rng = random.Random(mix(seed, 'scenario-codecs'))
        c1, c2 = rng.sample(CODECS, 2)

        def args(codec):
            return {'codec': codec, 'numeric_enums': False, 'adbc': None,
                    'encoding': 'utf-8', 'proc': 'inproc', 'stub': True}

        crash = {'op': 'compile-crash', 'fault': None}

        if scenario in (0, 3):     # first populate (small / large value)
            ops = [dict(args(c1), **crash),
                   dict(args(c1), op='compile'), dict(args(c2), op='compile')]
        elif scenario == 1:        # second key into an existing db
            ops = [dict(args(c1), op='compile'), dict(args(c2), **crash),
                   dict(args(c2), op='compile'), dict(args(c1), op='compile')]
        elif scenario == 2:        # hit path
            ops = [dict(args(c1), op='compile'), dict(args(c1), **crash),
                   dict(args(c1), op='compile')]
        elif scenario == 4:        # re-populate after the source changed
            ops = [dict(args(c1), op='compile'),
                   {'op': 'edit', 'variant': 1}, dict(args(c1), **crash),
                   dict(args(c1), op='compile'),
                   {'op': 'edit', 'variant': 0},
                   dict(args(c1), op='compile')]
        else:                      # populate into a dir left by a killed one
            ops = [dict(args(c1), op='compile-crash',
                        fault={'kind': 'libc', 'mode': 'KILL', 'n': 90,
                               'arg': -1}),
                   dict(args(c1), **crash), dict(args(c1), op='compile'),
                   dict(args(c2), op='compile')]

        return {'variants': variants, 'ops': ops, 'seed': seed,
                'module': module_name, 'scenario': scenario,
                'mtime': 'frozen'}

    def run_sweep(self, item):
        result = Result()
        base = self.scenario_case(item['scenario'], item['seed'],
                                  item.get('large'))

        for position, op in enumerate(base['ops']):
            op['index'] = position

        index = [i for i, op in enumerate(base['ops'])
                 if op['op'] == 'compile-crash' and op['fault'] is None][0]
        prefix, rest = base['ops'][:index], base['ops'][index:]
        holder = fsfault.scratch_root('vsim-c17-snap-')
        snapshot = os.path.join(holder, 'snapshot')
        root = os.path.join(holder, 'root')
        os.makedirs(root)
        memo = {}

        try:
            # Run the prefix once, keep the directory it leaves, and count
            # the crash points of the operation under test.
            prepare = copy.deepcopy(base)
            prepare['ops'] = copy.deepcopy(prefix) + [
                {'op': 'snapshot', 'to': snapshot}]
            self.execute(prepare, memo=memo, root=root)
            variant = ([op['variant'] for op in prefix
                        if op['op'] == 'edit'] or [0])[-1]
            kills = len([op for op in prefix if op['op'] == 'compile-crash'])
            restore = {'op': 'restore', 'from': snapshot, 'variant': variant,
                       'kills': kills, 'prefix': len(prefix)}
            # Count in exactly the state every crash point starts from.
            counting = dict(base, ops=[
                dict(restore),
                dict(copy.deepcopy(rest[0]),
                     fault={'kind': 'libc', 'mode': 'COUNT'})])
            measured = self.execute(counting, measure=True, memo=memo,
                                    root=root)
            calls, ticks = measured.measure
            total = ticks if item['mode'] == 'tick' else calls

            for n in range(item['start'], min(item['end'], total + 1),
                           item.get('stride', 1)):
                if item['mode'] == 'tick':
                    fault = {'kind': 'tick', 'n': n}
                else:
                    fault = {'kind': 'libc', 'mode': item['mode'], 'n': n,
                             'arg': -1}

                crash = dict(copy.deepcopy(rest[0]), fault=fault,
                             stub=(n % 8 != 0))
                fast = dict(base, ops=[dict(restore), crash]
                            + copy.deepcopy(rest[1:]))
                sub = self.execute(fast, memo=memo, root=root)

                if sub.violations:
                    # Report through the self-contained history ('recycle'
                    # = the directory copied away and back, which is what
                    # the snapshot/restore of the fast path amounts to).
                    full = dict(base, ops=copy.deepcopy(prefix)
                                + [{'op': 'recycle'}, crash]
                                + copy.deepcopy(rest[1:]))
                    again = self.execute(full)

                    if again.violations:
                        sub.violations = again.violations
                    else:
                        for violation in sub.violations:
                            violation['case'] = full

                merge_into(result, sub)
                result.stats['sweep-{}-points'.format(item['mode'])] += 1

                if any(v['class'] in ('error-without-fault',
                                      'error-after-kill-only')
                       and (v['detail'].get('got') or {}).get('outcome')
                       == 'hang' for v in result.violations):
                    # A compile that never returns: every further crash
                    # point of this sweep would wait for the same limits.
                    break
        finally:
            shutil.rmtree(holder, ignore_errors=True)

        key = 'max-sweep-points-scenario-{}-{}'.format(item['scenario'],
                                                       item['mode'])
        result.stats[key] = total

        return result

    # -- execution ----------------------------------------------------------------

    def execute(self, case, measure=False, memo=None, root=None):
        """root: run in this (emptied) directory instead of a fresh one -
        used by the sweeps, so that the file paths stay the same from the
        snapshot prefix to every crash point."""

        result = Result()
        result.measure = (0, 0)
        own = root is None

        if own:
            root = fsfault.scratch_root('vsim-c17-')
        else:
            for name in os.listdir(root):
                shutil.rmtree(os.path.join(root, name), ignore_errors=True)

        try:
            self.run_history(case, root, result, measure,
                             {} if memo is None else memo)
        finally:
            if own:
                shutil.rmtree(root, ignore_errors=True)

        return result

    def run_history(self, case, root, result, measure, references):
        gc.collect()
        src = os.path.join(root, 'src')
        cache = os.path.join(root, 'cache')
        os.makedirs(src)
        seed = case.get('seed', 0)
        state = {'variant': 0, 'paths': []}

        def write_variant(index):
            for name in os.listdir(src):
                os.unlink(os.path.join(src, name))

            paths = []

            for name, text in case['variants'][index]:
                path = os.path.join(src, name)

                with open(path, 'wb') as fout:
                    fout.write(text.encode('utf-8'))

                mode = case.get('mtime', 'real')

                if mode != 'real':
                    stamp = 1700000000 * 10 ** 9

                    if mode == 'advance':
                        state['edits'] = state.get('edits', 0) + 1
                        stamp += state['edits'] * 3 * 10 ** 9

                    os.utime(path, ns=(stamp, stamp))

                paths.append(path)

            state['variant'] = index
            state['paths'] = paths

        def reference(op):
            key = json.dumps([state['variant'], op['codec'],
                              op['numeric_enums'], op['adbc'],
                              op['encoding']])

            if key not in references:
                keep = []

                try:
                    probes = make_probes(state['paths'], op['codec'], op,
                                         seed)
                except Exception:
                    probes = None   # the files do not even parse

                references[key] = (behaviour(state['paths'], op['codec'], op,
                                             None, seed, keep, probes),
                                   keep, probes)

            return references[key]

        def reference_spec(op):
            keep = reference(op)[1]

            return keep[0] if keep else None

        def directory_state():
            h = hashlib.sha256()

            for role, path in sorted(fsfault.list_roles(cache).items()):
                h.update(role.encode())
                h.update(str(os.path.getsize(path)).encode())

            return h.hexdigest()[:16]

        write_variant(0)
        kills = 0
        io_errors_pending = False   # previous compile ran under I/O errors
        tainted = False             # damage since the last wipe
        bitflips = []
        history = []
        concurrent_edits = 0        # compiles during which a file changed

        def report(cls, signature, detail, index):
            small = dict(case, ops=copy.deepcopy(case['ops'][:index + 1]))
            detail = dict(detail, history=history[-8:])
            result.violation(cls, signature, detail, small)

        for index, op in enumerate(case['ops']):
            name = op['op']
            result.stats['op-' + name] += 1

            if name == 'edit':
                write_variant(op['variant'] % len(case['variants']))
                history.append(['edit', state['variant']])
                continue

            if name == 'recycle':
                # The quiescent cache directory is copied away and back
                # (backup / restore, moved workspace): same contents, new
                # files.
                if os.path.isdir(cache):
                    side = cache + '.recycle'
                    shutil.copytree(cache, side)
                    shutil.rmtree(cache)
                    shutil.copytree(side, cache)
                    shutil.rmtree(side)

                history.append(['recycle'])
                continue

            if name == 'snapshot':
                shutil.copytree(cache, op['to']) if os.path.isdir(cache) \
                    else os.makedirs(op['to'])
                continue

            if name == 'restore':
                shutil.rmtree(cache, ignore_errors=True)
                shutil.copytree(op['from'], cache)
                write_variant(op['variant'])
                kills = op.get('kills', 0)
                history.append(['restored-prefix', op['prefix']])
                continue

            if name == 'wipe':
                shutil.rmtree(cache, ignore_errors=True)
                tainted = False
                io_errors_pending = False
                kills = 0
                bitflips = []
                concurrent_edits = 0
                history.append(['wipe'])
                continue

            if name == 'damage':
                done = fsfault.damage(cache, op['kind'], op['role'],
                                      op['fraction'], op.get('bit', 0),
                                      op.get('names', ()))

                if done is not None:
                    tainted = True
                    result.stats['fault-damage-' + op['kind']] += 1

                    if op['kind'].startswith('bitflip'):
                        bitflips.append(done)

                history.append(['damage', done])
                continue

            if name == 'compile-edit':
                concurrent_edits += self.compile_during_edit(
                    op, index, state, cache, seed, reference, write_variant,
                    tainted, result, history)
                continue

            # -- a compiler process -------------------------------------------
            fault = op.get('fault')
            before = directory_state()
            urandom_seed = mix(seed, 'urandom', op.get('index', index))
            expected, _, probes = reference(op)

            stub_spec = reference_spec(op) if op.get('stub') else None
            paths = list(state['paths'])

            def in_child():
                if stub_spec is not None:
                    with Stub(stub_spec, op['codec'], op):
                        return behaviour(paths, op['codec'], op, cache,
                                         seed, probes=probes)

                return behaviour(paths, op['codec'], op, cache, seed,
                                 probes=probes)

            outcome = None

            if fault is None and op.get('proc', 'child') == 'inproc' \
                    and not tainted:
                # Un-faulted compile in the driver process itself (a
                # long-lived user process calling compile_files again),
                # under an alarm: a call that waits for ever (for a lock a
                # killed process left behind, say) is abandoned and made
                # again in a compiler process, where it can be judged.
                def on_alarm(signum, frame):
                    raise InprocTimeout()

                previous = signal.signal(signal.SIGALRM, on_alarm)
                signal.setitimer(signal.ITIMER_REAL, CHILD_WALL_S)

                try:
                    with fsfault.seeded_urandom(urandom_seed):
                        payload = behaviour(state['paths'], op['codec'], op,
                                            cache, seed, probes=probes)

                    outcome = {'status': 'returned', 'payload': payload,
                               'fired': 0, 'ticks': 0, 'calls': None}
                    result.stats['compiles-in-process'] += 1
                except InprocTimeout:
                    outcome = {'status': 'timeout', 'payload': None,
                               'calls': None, 'ticks': None, 'fired': 1,
                               'wall_timeout': CHILD_WALL_S}
                    result.stats['compiles-in-process-abandoned'] += 1
                finally:
                    signal.setitimer(signal.ITIMER_REAL, 0)
                    signal.signal(signal.SIGALRM, previous)

                # Whatever the call left behind in this process (a sqlite
                # connection kept alive by a reference cycle would hold the
                # -wal/-shm files) goes now, not at some later collection.
                gc.collect()
            else:
                outcome = fsfault.run_child(in_child, cache, fault=fault,
                                            urandom_seed=urandom_seed,
                                            wall_timeout=CHILD_WALL_S)
                result.stats['compiler-processes'] += 1

                if stub_spec is not None:
                    result.stats['compiler-processes-with-stubbed-compile'] \
                        += 1
            result.evaluations += 1
            result.ticks += outcome.get('ticks') or 0
            args = [op['codec'], op['numeric_enums'], bool(op['adbc']),
                    op['encoding'], state['variant']]

            if history:
                result.key(before, args, fault)

            if measure and fault and fault.get('mode') == 'COUNT':
                result.measure = (outcome['calls'], outcome['ticks'])

            planned_kill = fault is not None and (
                fault['kind'] == 'tick'
                or fault.get('mode') in ('KILL', 'TORN'))

            if outcome['status'] == 'killed' and not (
                    planned_kill and outcome['signal'] == 9):
                # The compiler process itself died of a signal (sqlite maps
                # cache.db-shm / cache.db; a truncated file gives SIGBUS).
                # That is an error of the damaged cache, never a wrong
                # codec - and a violation if nothing was damaged.
                outcome = {'status': 'returned', 'fired': 0, 'ticks': 0,
                           'payload': {'outcome': 'err',
                                       'type': 'signal-{}'.format(
                                           outcome['signal']),
                                       'text': 'compiler process died'}}
                result.stats['compiler-process-died-of-signal'] += 1

            if outcome['status'] == 'timeout' and not tainted and not (
                    fault is not None and fault.get('mode') in ('ERR',
                                                                'SHORT')):
                # The driver killed a compiler process that did not come
                # back within 25 s of wall-clock time.  On a loaded machine
                # that can be a slow process, not a hung one: the call is
                # made again (after what is now one more kill) with a far
                # longer limit, and only that one is judged.
                kills += 1
                result.stats['compiler-process-slow-retried'] += 1
                history.append([name, None, fault, 'killed-by-driver-25s'])
                started = time.time()
                world.compile_text('A DEFINITIONS ::= BEGIN B ::= INTEGER END',
                                   'ber')
                # How slow is this machine right now?  (A trivial compile
                # takes about 50 ms when it is idle.)
                slowdown = max(1.0, (time.time() - started) / 0.05)
                outcome = fsfault.run_child(
                    in_child, cache, fault=fault, urandom_seed=urandom_seed,
                    wall_timeout=min(900, 30 + 10 * slowdown))

            if outcome['status'] == 'timeout':
                # Not an error, not a codec: the process had to be killed
                # by the driver.  Outside what the statement promises when
                # the directory is damaged or I/O errors are in flight;
                # a violation otherwise.
                io_fault = fault is not None and fault.get('mode') in (
                    'ERR', 'SHORT')
                result.stats['compiler-process-hung-and-killed'] += 1
                kills += 1
                history.append([name, args, fault, 'hung'])

                if not (tainted or io_fault):
                    report('error-without-fault',
                           {'after': 'kill' if kills > 1 else 'nothing'},
                           {'args': args, 'fault': fault,
                            'got': {'outcome': 'hang',
                                    'killed_after_s':
                                    outcome['wall_timeout']}}, index)

                if io_fault:
                    io_errors_pending = True

                if not (tainted or io_fault):
                    # Every further compile would hang the same way.
                    break

                continue

            if outcome['status'] == 'killed':
                kills += 1
                result.stats['fault-killed-{}'.format(
                    fault['kind'] + '-' + fault.get('mode', ''))] += 1
                history.append([name, args, fault, 'killed'])
                continue

            if outcome['status'] == 'died':
                raise fsfault.HarnessError('compiler process died silently')

            payload = outcome['payload']

            if fault is not None and fault.get('mode') in ('ERR', 'SHORT'):
                if outcome['fired']:
                    result.stats['fault-io-{}-calls-failed'.format(
                        fault['mode'])] += outcome['fired']

            if name == 'compile-crash':
                result.stats['crash-point-beyond-end'] += 1

            for kind, count in (outcome.get('kinds') or {}).items():
                if count:
                    result.stats['libc-' + kind] += count

            if 'val[0]' in fsfault.list_roles(cache):
                result.stats['probe-val-file-path-taken'] += 1

            history.append([name, args, fault, payload['outcome'],
                            payload.get('type')])
            in_flight_io = (name == 'compile-io-error'
                            and outcome['fired'] > 0)
            signature = {'after': ('damage' if tainted else
                                   'io-error' if (in_flight_io
                                                  or io_errors_pending) else
                                   'kill' if kills else
                                   'concurrent-edit' if concurrent_edits
                                   else 'nothing')}
            detail = {'args': args, 'fault': fault,
                      'got': {k: v for k, v in payload.items()
                              if k != 'lines'},
                      'expected': {k: v for k, v in expected.items()
                                   if k != 'lines'}}

            if payload['outcome'] == 'ok' and expected['outcome'] == 'ok':
                if payload['digest'] != expected['digest']:
                    got, want = payload['lines'], expected['lines']
                    first = [i for i, (a, b) in enumerate(zip(got, want))
                             if a != b][:1]
                    detail['first_difference'] = [
                        (got[i][:200], want[i][:200]) for i in first]

                    if bitflips:
                        signature = {'fault': 'bitflip',
                                     'location': self.flip_location(
                                         bitflips, state, op)}

                    report('wrong-codec', signature, detail, index)
                else:
                    result.stats['compiles-correct'] += 1
            elif payload['outcome'] in ('ok', 'not-a-specification',
                                        'unusable'):
                # The uncached compile fails but the cache returned
                # something (or returned something that is no codec).
                if payload['outcome'] == 'ok' or not tainted:
                    if bitflips:
                        signature = {'fault': 'bitflip',
                                     'location': self.flip_location(
                                         bitflips, state, op)}

                    report('wrong-codec', signature, detail, index)
                else:
                    result.stats['error-after-damage'] += 1
            elif expected['outcome'] == 'err' and \
                    payload.get('type') == expected.get('type') and \
                    payload.get('text') == expected.get('text'):
                result.stats['compiles-rejected-equally'] += 1
            else:
                # The cached compile raised although the uncached one works
                # (or raised something else).
                if tainted:
                    result.stats['error-after-damage'] += 1
                elif in_flight_io:
                    result.stats['error-under-io-error'] += 1
                elif io_errors_pending:
                    report('no-recovery-after-io-error', signature, detail,
                           index)
                elif kills:
                    report('error-after-kill-only', signature, detail, index)
                else:
                    report('error-without-fault', signature, detail, index)

            io_errors_pending = in_flight_io

        result.log.append(['history', history])

        if len(result.samples) < 1 and len(history) > 2:
            result.samples.append({'history': history[:8]})

    def compile_during_edit(self, op, index, state, cache, seed, reference,
                            write_variant, tainted, result, history):
        """A compile_files call (in this process, real code throughout)
        during which another actor rewrites the source files: at Python
        tick n of the call (lines of asn1tools/compiler.py and
        diskcache/core.py) the files become variant v.  The call itself
        may see the old files, the new ones or - with several files - a
        mixture, as an uncached compile would; it is not judged.  What it
        leaves in the cache directory is judged by the later compiles of
        the history.  Returns 1 if the edit landed inside the call."""

        fault = op['fault']
        target = fault['variant']
        old = state['variant']

        if tainted:
            # In-process compiles on a damaged directory can kill the
            # driver (SIGBUS on a truncated -shm): only the edit happens.
            write_variant(target)
            history.append(['edit', target])

            return 0

        expected_old, _, probes_old = reference(op)
        prefixes = (steps.ASN1TOOLS_DIR + 'compiler.py',
                    fsfault._diskcache_core())
        fired = []
        paths = list(state['paths'])

        def editor():
            clock.hook_at = -1
            fired.append(clock.ticks)
            write_variant(target)

        clock = steps.StepClock(None, editor, prefixes)
        clock.hook_at = fault['n']
        keep = []

        def on_alarm(signum, frame):
            raise InprocTimeout()

        # (Under an alarm, as every in-process compile: a call that waits
        # for ever - for a lock a killed process left behind, say - is
        # abandoned; the later compiles of the history are judged.)
        previous = signal.signal(signal.SIGALRM, on_alarm)
        signal.setitimer(signal.ITIMER_REAL, 4 * CHILD_WALL_S)

        try:
            with fsfault.seeded_urandom(mix(seed, 'urandom', index)):
                clock.install()

                try:
                    payload = behaviour(paths, op['codec'], op, cache, seed,
                                        keep, probes=probes_old)
                finally:
                    clock.uninstall()
        except InprocTimeout:
            payload = {'outcome': 'err', 'type': 'abandoned',
                       'text': 'no return within the wall limit'}
            result.stats['compiles-in-process-abandoned'] += 1
        finally:
            signal.setitimer(signal.ITIMER_REAL, 0)
            signal.signal(signal.SIGALRM, previous)

        gc.collect()
        result.evaluations += 1
        result.ticks += clock.ticks
        result.stats['compiles-in-process'] += 1

        if not fired:
            # The call was over before tick n: the edit happens after it.
            write_variant(target)
            result.stats['concurrent-edit-after-the-call'] += 1
        else:
            result.stats['fault-concurrent-edit'] += 1

        # Which files did the call see?  (A probe, not a verdict.)
        saw = 'error' if payload['outcome'] != 'ok' else 'other'

        if payload['outcome'] == 'ok' and expected_old['outcome'] == 'ok' \
                and payload['digest'] == expected_old['digest']:
            saw = 'old'
        elif keep:
            expected_new, _, probes_new = reference(op)

            if expected_new['outcome'] == 'ok' and probes_new is not None:
                try:
                    lines = probes_new.apply(keep[0])
                except Exception:
                    lines = None

                if lines == expected_new['lines']:
                    saw = 'new'

        if fired:
            result.stats['concurrent-edit-call-saw-' + saw] += 1

        result.key('concurrent-edit', op['codec'], old, target,
                   fired[0] if fired else -1)
        history.append(['compile-edit', [op['codec'], op['numeric_enums'],
                                         bool(op['adbc']), op['encoding'],
                                         old], fault,
                        fired[0] if fired else None, saw])

        return 1 if fired else 0

    @staticmethod
    def flip_location(bitflips, state, op):
        """'stored-payload-or-key' if every flip hit a .val file or landed in
        bytes that belong to a pickled value / key stored in the db file;
        'elsewhere' otherwise."""

        import pickle

        key_bytes = op['codec'].encode('ascii')

        for path in state['paths']:
            with open(path, 'rb') as fin:
                key_bytes += fin.read()

        for flip in bitflips:
            if flip['role'].startswith('val['):
                continue

            context = bytes.fromhex(flip['context'])
            window = context[max(0, len(context) // 2 - 6):
                             len(context) // 2 + 6]

            if window and window in key_bytes:
                continue

            # Pickle protocol 0 is ASCII: a window of printable bytes that
            # is not part of the key is taken to be stored pickle text.
            if window and all(32 <= b < 127 or b in (10, 13)
                              for b in window):
                continue

            return 'elsewhere'

        return 'stored-payload-or-key'

    def same_violation(self, a, b):
        return a['class'] == b['class']

    def shrink(self, case, violation):
        ops = case['ops']

        if ((violation.get('detail') or {}).get('got') or {}).get(
                'outcome') == 'hang':
            return      # every candidate would wait for the wall limits

        if len(ops) > 1:
            for reduced in shrink.drop_each(ops[:-1]):
                yield dict(case, ops=reduced + [ops[-1]])

        for index, op in enumerate(ops[:-1]):
            if op['op'] in ('compile-crash', 'compile-io-error'):
                reduced = copy.deepcopy(ops)
                reduced[index] = dict(op, op='compile')
                reduced[index].pop('fault')

                yield dict(case, ops=reduced)

            if op['op'] == 'compile-edit':
                reduced = copy.deepcopy(ops)
                reduced[index] = {'op': 'edit',
                                  'variant': op['fault']['variant']}

                yield dict(case, ops=reduced)

    def finish(self, tier, agg):
        fired = {k[len('fault-'):]: v for k, v in agg.stats.items()
                 if k.startswith('fault-')}
        sweeps = {k[len('max-'):]: v for k, v in agg.stats.items()
                  if k.startswith('max-sweep-points')}

        return {'fault_kinds_fired': fired,
                'crash_point_sweeps': {
                    'points_per_scenario': sweeps,
                    'executed': {m: agg.stats.get(
                        'sweep-{}-points'.format(m), 0)
                        for m in ('KILL', 'TORN', 'tick')},
                    'exhaustive': True,
                    'tick_stride': 24 if tier == 'quick' else 1,
                    'note': 'every libc call 1..N of the crashing operation '
                            'of each listed scenario was used as a crash '
                            'point in KILL and in TORN mode (exhaustive); '
                            'Python-tick crash points 1..T with the stated '
                            'stride'}}


ENGINE = C17()
