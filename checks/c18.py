"""C18 - a compiled specification is stateless across calls and threads.

Simulation: one Specification S shared by 1..8 caller threads that the
deterministic scheduler (vsim/sched.py) pre-empts at line events inside
asn1tools; up to 50 operations (encode / decode of valid, corrupted,
truncated and bit-flipped data, random check_types / check_constraints /
indent).  Reference model: every operation executed alone on a second,
freshly compiled specification O.  Oracles: every outcome on S equals the
reference; inputs to encode are not modified; after the run S has the same
behaviour digest as O and a sequential sweep of all operations on S matches
again.  Fault kinds: failing operations (part-way through nested
structures) and an injected allocation failure at an arbitrary tick.
"""

import copy
import json
import os
import pickle
import random
import sys
import threading

from vsim import steps, world, specgen, shrink, wire, sched, graph
from vsim.digest import ProbeSet, first_difference
from vsim.rng import mix
from vsim.runner import Engine, Result
from vsim.ser import ser, deser, canon, canon_outcome
from vsim.valgen import corrupt, ValGen, Unsupported

CODECS = ['ber', 'der', 'per', 'uper', 'oer', 'jer', 'xer', 'gser']
OP_BUDGET = 1500000
RUN_REF_TICKS = 1200000
AMPLIFY_ROUNDS = 60
threading.stack_size(16 * 1024 * 1024)


def is_recursion(outcome):
    return outcome[0] == 'err' and outcome[1] == 'builtins.RecursionError'


PREEMPT_TICK_CAP = 20000000


class C18(Engine):
    property_id = 'C18'
    level = 'exploration'
    rule = ('one evaluation = one encode/decode operation executed on the '
            'shared Specification under a simulated schedule and compared '
            'with the same operation alone on a fresh Specification; one run '
            '= one module x codec x <= 50 operations x 1..8 threads x one '
            'schedule (random switch p in {0.001,0.01,0.1,0.5}, PCT d in '
            '1..3, round-robin, sequential) x optional injected '
            'MemoryError; non-trivial = a run with >= 2 threads and >= 1 '
            'context switch inside asn1tools code; distinct = distinct '
            'switch traces (hash of the run-length schedule actually taken '
            'together with the operation list)')
    assumptions = [
        'pre-emption granularity is one Python source line inside '
        '/repo/asn1tools (races inside one line or inside C code are not '
        'explored)',
        'operations whose reference outcome is a step-budget hang are '
        'excluded from the threaded run (counted as foreign-hang)',
        'mutating a *returned* value is not part of the statement',
    ]
    real_stub = {
        'real': ['asn1tools parser, compilers, codecs, type and constraints '
                 'checkers', 'caller threads (threading.Thread)'],
        'stub': ['who runs next: decided by the simulator, never by the OS'],
    }
    tiers = {
        'quick': dict(runs=1400, wall_cap=170, chunk=4, minimise_s=60),
        'thorough': dict(runs=30000, wall_cap=3300, chunk=4, minimise_s=180),
    }

    # -- generation -----------------------------------------------------------

    def gen_case(self, run_seed):
        knobs = random.Random(mix(run_seed, 'knobs'))
        codec = knobs.choice(CODECS)
        numeric_enums = knobs.random() < 0.2
        features = None

        if knobs.random() < 0.5:
            # Bias towards shared sub-types and recursion.
            rng = random.Random(mix(run_seed, 'features'))
            features = sorted(set(
                [f for f in specgen.ALL_FEATURES if rng.random() < 0.6]
                + ['refs', 'recursion', 'seq', 'choice', 'seqof', 'optional',
                   'default', 'ext', 'int']))

        spec, text, parsed = world.gen_world(run_seed, codec,
                                             features=features)
        ops = []
        n_threads = knobs.choice([1, 2, 2, 3, 4, 8])

        if parsed is not None:
            rng = random.Random(mix(run_seed, 'ops'))
            values = random.Random(mix(run_seed, 'values'))
            faults = random.Random(mix(run_seed, 'faults'))
            gen = ValGen(parsed, values, numeric_enums=numeric_enums,
                         max_depth=3,
                         absent_additions=codec not in world.TEXT_CODECS,
                         addition_bias=knobs.choice([0.25, 0.5, 0.7]))
            types = gen.top_types()
            # A few "hot" types get most of the traffic, so that the same
            # compiled objects are hit repeatedly and from several threads.
            hot = values.sample(types, min(len(types),
                                           knobs.choice([1, 1, 2, 3])))
            target = knobs.choice([5, 10, 20, 50])
            later = []   # follow-up operations inserted further down

            def base_op(type_name):
                op = {'type': type_name,
                      'thread': rng.randrange(n_threads),
                      'check_types': rng.random() < 0.7,
                      'check_constraints': rng.random() < 0.4}

                if codec in ('jer', 'xer', 'gser') and rng.random() < 0.3:
                    op['indent'] = rng.choice([1, 2, 4])

                if codec in ('ber', 'der') and rng.random() < 0.25:
                    # The framing helpers are decode calls on the shared
                    # specification too.
                    op['api'] = rng.choice(['decode_with_length',
                                            'decode_with_length',
                                            'decode_length'])

                return op

            attempts = 0

            while len(ops) + len(later) < target and attempts < 4 * target:
                attempts += 1

                if later and rng.random() < 0.35:
                    ops.append(later.pop(rng.randrange(len(later))))
                    continue

                module_name, type_name = values.choice(
                    hot if rng.random() < 0.75 else types)

                try:
                    value = gen.value(module_name, type_name)
                except Unsupported:
                    continue

                roll = rng.random()
                op = base_op(type_name)

                if roll < 0.3 or codec == 'gser':
                    op.update(kind='encode', value=ser(value))
                elif roll < 0.55:
                    op.update(kind='encode',
                              value=ser(corrupt(value, values)))

                    # The same value, uncorrupted, later on (possibly on
                    # another thread): residue of the failed call would
                    # show there.
                    if rng.random() < 0.6:
                        follow = base_op(type_name)
                        follow.update(kind='encode', value=ser(value))
                        later.append(follow)
                elif roll < 0.75:
                    op.update(kind='decode', value=ser(value),
                              fault={'kind': 'none'})
                else:
                    fault = wire.draw_fault(faults, codec, 1.0)

                    if codec in ('ber', 'der') and faults.random() < 0.35:
                        # Well-formed encodings of something else (a
                        # mandatory member missing, a member twice): the
                        # decoder fails deep inside, on its error paths.
                        fault = {'kind': faults.choice(
                            ['node-drop-fix', 'node-drop-fix',
                             'node-dup-fix', 'node-swap-fix']),
                            'seed': faults.getrandbits(32)}

                    op.update(kind='decode', value=ser(value), fault=fault)

                    if rng.random() < 0.4:
                        follow = base_op(type_name)
                        follow.update(kind='decode', value=ser(value),
                                      fault={'kind': 'none'})
                        later.append(follow)

                ops.append(op)

            ops.extend(later)

        schedule_rng = random.Random(mix(run_seed, 'schedule'))
        kind = schedule_rng.choice(['random', 'random', 'random', 'pct',
                                    'rr', 'sequential'])
        schedule = {'kind': kind}

        if kind == 'random':
            schedule.update(seed=schedule_rng.getrandbits(32),
                            p=schedule_rng.choice([0.001, 0.01, 0.1, 0.5]))
        elif kind == 'pct':
            schedule.update(seed=schedule_rng.getrandbits(32),
                            d=schedule_rng.choice([1, 2, 3]))
        elif kind == 'rr':
            schedule.update(q=schedule_rng.choice([1, 2, 7, 50, 400]))

        inject = None

        if schedule_rng.random() < 0.25:
            inject = {'fraction': schedule_rng.random()}

        return {'spec': spec, 'codec': codec, 'numeric_enums': numeric_enums,
                'ops': ops, 'threads': n_threads, 'schedule': schedule,
                'inject': inject, 'seed': run_seed,
                'granularity': os.environ.get('VSIM_C18_GRANULARITY') or (
                    'opcode' if schedule_rng.random() < 0.1 else 'line')}

    # -- exhaustive single-pre-emption sweeps -----------------------------------

    def plan(self, tier, seed, runs):
        sweeps = 36 if tier == 'quick' else max(200, runs // 20)
        # (The sweeps first: they are the longest items, and on a loaded
        # machine the wall cap cuts the end of the plan.)
        items = [{'kind': 'preempt', 'seed': mix(seed, 'C18-preempt', index)}
                 for index in range(sweeps)]
        items.extend(Engine.plan(self, tier, seed, runs))

        return items

    def run_item(self, item):
        if item['kind'] == 'preempt':
            return self.run_preempt(item)

        return self.execute(self.gen_case(item['seed']))

    def run_preempt(self, item):
        """Two threads, one operation each on the same (hot) type; EVERY
        schedule with a single pre-emption is executed: thread A runs k
        ticks, thread B runs to its end, A finishes - for every k, and with
        the roles swapped."""

        result = Result()
        base = self.gen_case(item['seed'])
        codec = base['codec']
        by_type = {}

        for op in base['ops']:
            by_type.setdefault(op['type'], []).append(op)

        pairs = [ops for ops in by_type.values() if len(ops) >= 2]

        if not pairs:
            return result

        chosen = max(pairs, key=len)
        rng = random.Random(mix(item['seed'], 'pair'))
        first, second = rng.sample(chosen, 2)
        text = specgen.render(base['spec'])
        shared = world.compile_text(text, codec, base['numeric_enums'])
        oracle = world.compile_text(text, codec, base['numeric_enums'])

        if shared[0] != 'ok' or oracle[0] != 'ok':
            result.stats['rejected-program'] += 1

            return result

        # Besides that pair: the same FAILING call from both threads, once
        # per kind of failure that occurs in this case (shared error
        # objects, location paths and half-built results show as mixed error
        # texts).
        pairs_to_run = [[dict(first, thread=0), dict(second, thread=1)]]
        seen_failures = set()
        candidates = list(base['ops'])
        rng.shuffle(candidates)

        for op in candidates[:30]:
            data = None

            if op['kind'] == 'decode':
                if op['fault']['kind'] in ('none', 'raw'):
                    continue

                outcome, _ = steps.call(
                    lambda: oracle[1].encode(op['type'], deser(op['value'])),
                    OP_BUDGET)

                if outcome[0] != 'ok':
                    continue

                data = wire.mutate(outcome[1], op['fault'], b'')

            fn, _ = self.make_call(oracle[1], op, data)
            outcome, _ = steps.call(fn, OP_BUDGET)

            if outcome[0] != 'err' or outcome[1] in seen_failures:
                continue

            seen_failures.add(outcome[1])
            pairs_to_run.append([dict(op, thread=0),
                                 dict(copy.deepcopy(op), thread=1)])
            result.stats['preempt-sweeps-same-failing-call'] += 1

            if len(pairs_to_run) >= 4:
                break

        shared, oracle = shared[1], oracle[1]

        for ops in pairs_to_run:
            self.sweep_pair(result, item, base, text, codec, shared, oracle,
                            ops, rng)

            if result.violations:
                break

        return result

    def sweep_pair(self, result, item, base, text, codec, shared, oracle,
                   ops, rng):
        pristine = graph.fingerprint(oracle)[0]
        datas = []
        expected = []
        alone_ticks = []

        for op in ops:
            data = None

            if op['kind'] == 'decode':
                if op['fault']['kind'] == 'raw':
                    data = bytes.fromhex(op['fault']['data'])
                else:
                    value = deser(op['value'])
                    outcome, ticks = steps.call(
                        lambda: oracle.encode(op['type'], value), OP_BUDGET)

                    if outcome[0] != 'ok':
                        return result

                    data = wire.mutate(outcome[1], op['fault'], b'')

            datas.append(data)
            fn, _ = self.make_call(oracle, op, data)
            outcome, ticks = steps.call(fn, OP_BUDGET)
            result.ticks += ticks

            if outcome[0] == 'hang' or is_recursion(outcome):
                return result

            expected.append(outcome)
            alone_ticks.append(ticks)

        if graph.fingerprint(oracle)[0] != pristine:
            result.stats['probe-reference-graph-changed'] += 1

        forever = 1 << 40
        limit = 4 * sum(alone_ticks) + 100000
        result.stats['preempt-sweeps'] += 1
        team = sched.Team(2)
        count = 0
        # What is built lazily at first use is built once per compiled
        # object: about a hundred of the schedules of a sweep start from a
        # pristine copy of the specification (as the compile cache would
        # hand it out), the others share one object.
        try:
            blob = pickle.dumps(shared)
        except Exception:
            blob = None

        fresh_every = max(1, sum(alone_ticks) // 100)

        for leader in (0, 1):
            follower = 1 - leader

            points = range(1, alone_ticks[leader] + 1)

            if len(points) * sum(alone_ticks) > PREEMPT_TICK_CAP:
                # A sweep costs k * (ticks of both operations): for long
                # operations a seeded sample of the pre-emption points.
                keep = max(50, PREEMPT_TICK_CAP // sum(alone_ticks))
                points = sorted(rng.sample(points, min(keep, len(points))))
                result.stats['preempt-sweeps-sampled-not-exhaustive'] += 1

            for k in points:
                runs = [[leader, k], [follower, forever], [leader, forever]]
                scheduler = sched.Scheduler(2, {'kind': 'explicit',
                                                'runs': runs}, limit)
                outcomes = {}

                target = shared

                if blob is not None and count % fresh_every == 0:
                    target = pickle.loads(blob)
                    result.stats['preempt-schedules-on-pristine-copy'] += 1

                def body(tid):
                    fn, _ = self.make_call(target, ops[tid], datas[tid])

                    try:
                        outcomes[tid] = ['ok', fn()]
                    except steps.StepBudgetExceeded as e:
                        outcomes[tid] = ['hang', steps.raise_site(e)]
                        scheduler.clock.limit = scheduler.clock.ticks + limit
                    except RecursionError:
                        outcomes[tid] = ['err', 'builtins.RecursionError',
                                         '', None]
                    except Exception as e:
                        outcomes[tid] = steps.exc_outcome(e)

                scheduler.run(body, team=team)
                count += 1
                result.ticks += scheduler.clock.ticks
                result.evaluations += 2
                result.stats['preempt-schedules'] += 1
                result.stats['context-switches'] += scheduler.switches

                for tid in (0, 1):
                    if is_recursion(outcomes[tid]):
                        continue

                    if canon_outcome(outcomes[tid]) != canon_outcome(
                            expected[tid]):
                        case = dict(base, ops=copy.deepcopy(ops), threads=2,
                                    schedule={'kind': 'explicit',
                                              'runs': runs}, inject=None)
                        result.violation(
                            'result-diff', {'codec': codec},
                            {'op': tid, 'kind': ops[tid]['kind'],
                             'type': ops[tid]['type'],
                             'single_preemption_after_ticks': k,
                             'got': canon_outcome(outcomes[tid])[:400],
                             'expected': canon_outcome(expected[tid])[:400]},
                            case)

                if count % 8 == 0 and \
                        graph.fingerprint(shared)[0] != pristine:
                    result.stats['probe-graph-state-changed'] += 1
                    fresh = world.compile_text(text, codec,
                                               base['numeric_enums'])

                    if fresh[0] == 'ok':
                        shared = fresh[1]

                if result.violations:
                    break

            if result.violations:
                break

        team.close()
        result.key('preempt', item['seed'], ops[0]['type'],
                   json.dumps(ops[0].get('fault')), ops[0] == ops[1],
                   weight=sum(alone_ticks))
        result.log.append(['preempt', codec, [o['kind'] for o in ops],
                           alone_ticks, len(result.violations)])

        if len(result.samples) < 1:
            result.samples.append({
                'kind': 'exhaustive single-pre-emption sweep',
                'codec': codec, 'type': ops[0]['type'],
                'ops': [o['kind'] for o in ops],
                'ticks_alone': alone_ticks,
                'schedules_executed': sum(alone_ticks)})

        return result

    # -- execution ------------------------------------------------------------

    @staticmethod
    def make_call(spec, op, data):
        """Returns (callable, argument object or None)."""

        type_name = op['type']

        if op['kind'] == 'encode':
            value = deser(op['value'])
            kwargs = {}

            if 'indent' in op:
                kwargs['indent'] = op['indent']

            return (lambda: spec.encode(
                type_name, value, check_types=op['check_types'],
                check_constraints=op['check_constraints'], **kwargs), value)

        api = op.get('api')

        if api == 'decode_with_length':
            return (lambda: spec.decode_with_length(
                type_name, data,
                check_constraints=op['check_constraints']), None)

        if api == 'decode_length':
            return (lambda: spec.decode_length(data), None)

        return (lambda: spec.decode(
            type_name, data,
            check_constraints=op['check_constraints']), None)

    def execute(self, case):
        result = Result()
        codec = case['codec']
        text = specgen.render(case['spec'])
        shared = world.compile_text(text, codec, case['numeric_enums'])
        oracle = world.compile_text(text, codec, case['numeric_enums'])
        result.log.append(['compile', codec, shared[0]])

        if shared[0] != 'ok' or oracle[0] != 'ok':
            result.stats['rejected-program'] += 1

            return result

        shared, oracle = shared[1], oracle[1]
        ops = case['ops']
        pristine, pristine_entries = graph.fingerprint(oracle)

        # -- reference: every operation alone on O ---------------------------
        datas = []
        expected = []
        ref_ticks = []
        live = []

        for index, op in enumerate(ops):
            data = None

            if op['kind'] == 'decode':
                if op['fault']['kind'] == 'raw':
                    data = bytes.fromhex(op['fault']['data'])
                else:
                    value = deser(op['value'])
                    outcome, ticks = steps.call(
                        lambda: oracle.encode(op['type'], value), OP_BUDGET)
                    result.ticks += ticks

                    if outcome[0] != 'ok':
                        datas.append(None)
                        expected.append(None)
                        ref_ticks.append(0)
                        result.stats['skipped-encode'] += 1
                        continue

                    data = wire.mutate(outcome[1], op['fault'],
                                       datas[-1] or b'' if datas else b'')

            datas.append(data)
            fn, arg = self.make_call(oracle, op, data)
            outcome, ticks = steps.call(fn, OP_BUDGET)
            result.ticks += ticks
            ref_ticks.append(ticks)

            if outcome[0] == 'hang':
                expected.append(None)
                result.stats['foreign-hang'] += 1
                continue

            expected.append(outcome)
            live.append(index)

        if not live:
            return result

        if graph.fingerprint(oracle)[0] != pristine:
            # The reference specification did not stay as compiled while
            # the operations ran on it one after the other, so "alone on a
            # freshly compiled specification" is taken literally: one fresh
            # compile per operation.
            result.stats['probe-reference-graph-changed'] += 1

            for index in live:
                fresh = world.compile_text(text, codec,
                                           case['numeric_enums'])

                if fresh[0] != 'ok':
                    continue

                fn, _ = self.make_call(fresh[1], ops[index], datas[index])
                outcome, ticks = steps.call(fn, OP_BUDGET)
                result.ticks += ticks

                if outcome[0] != 'hang':
                    expected[index] = outcome

        # Simulated-time cap of a run (a scheduled tick costs 10-50 times a
        # free-running one): operations beyond it are dropped, in order.
        cap = RUN_REF_TICKS // (4 if case.get('granularity') == 'opcode'
                                else 1)
        spent = 0
        kept = []

        for index in live:
            spent += ref_ticks[index]

            if spent > cap and kept:
                result.stats['ops-dropped-run-tick-cap'] += 1
                continue

            kept.append(index)

        live = kept
        n_threads = max(1, min(case['threads'], 8))
        total_ref = sum(ref_ticks[i] for i in live)
        per_thread = [[i for i in live if ops[i]['thread'] % n_threads == t]
                      for t in range(n_threads)]
        inject_tick = None

        if case.get('inject') is not None:
            if 'tick' in case['inject']:
                inject_tick = case['inject']['tick']
            else:
                inject_tick = int(case['inject']['fraction'] * total_ref)

        opcodes = case.get('granularity') == 'opcode'
        scale = 8 if opcodes else 1

        if inject_tick is not None and 'tick' not in case['inject']:
            inject_tick *= 5 if opcodes else 1

        limit = scale * (3 * total_ref + 300000)
        scheduler = sched.Scheduler(n_threads, case['schedule'], limit,
                                    inject_tick,
                                    total_hint=total_ref * (5 if opcodes
                                                            else 1),
                                    opcodes=opcodes)
        result.stats['granularity-' + ('opcode' if scheduler.opcodes
                                       else 'line')] += 1
        outcomes = {}
        mutated = {}
        tick_delta = {}

        def body(tid):
            for index in per_thread[tid]:
                op = ops[index]
                fn, arg = self.make_call(shared, op, datas[index])
                before = canon(arg) if arg is not None else None
                scheduler.current_op[tid] = index
                start = scheduler.clock.ticks

                try:
                    outcomes[index] = ['ok', fn()]
                except steps.StepBudgetExceeded as e:
                    outcomes[index] = ['hang', steps.raise_site(e)]
                    scheduler.clock.limit = scheduler.clock.ticks + limit
                except steps.InjectedFault:
                    outcomes[index] = ['injected']
                except RecursionError:
                    outcomes[index] = ['err', 'builtins.RecursionError', '',
                                       None]
                except Exception as e:
                    outcomes[index] = steps.exc_outcome(e)

                tick_delta[index] = scheduler.clock.ticks - start

                if arg is not None and canon(arg) != before:
                    mutated[index] = (before, canon(arg))

        try:
            recorded = scheduler.run(body)
        except sched.HarnessError:
            raise

        result.ticks += scheduler.clock.ticks
        result.stats['context-switches'] += scheduler.switches
        result.stats['schedule-' + case['schedule']['kind']] += 1
        result.stats['threads-{}'.format(n_threads)] += 1
        exempt = None

        if scheduler.injected_in is not None:
            exempt = scheduler.injected_in[1]
            result.stats['fault-injected-memoryerror'] += 1

        explicit = dict(case, schedule={'kind': 'explicit',
                                        'runs': recorded})

        if exempt is not None:
            explicit['inject'] = {'tick': inject_tick}

        def report(cls, detail):
            result.violation(cls, {'codec': codec}, detail,
                             copy.deepcopy(explicit))

        for index in live:
            op = ops[index]
            result.evaluations += 1
            result.stats['op-{}-{}'.format(
                op['kind'],
                'valid' if (op['kind'] == 'encode' and expected[index][0] == 'ok')
                or (op['kind'] == 'decode' and op['fault']['kind'] == 'none')
                else 'failing-or-faulted')] += 1

            if index not in outcomes:
                raise sched.HarnessError('operation {} never ran'.format(index))

            got = outcomes[index]

            if index in mutated:
                report('input-mutated',
                       {'op': index, 'type': op['type'],
                        'before': mutated[index][0][:300],
                        'after': mutated[index][1][:300]})

            if index == exempt:
                result.stats['exempt-injected-op'] += 1
                continue

            if is_recursion(got) or is_recursion(expected[index]):
                result.stats['recursion-borderline'] += 1
                continue

            if canon_outcome(got) != canon_outcome(expected[index]):
                report('result-diff',
                       {'op': index, 'kind': op['kind'], 'type': op['type'],
                        'thread': op['thread'] % n_threads,
                        'got': canon_outcome(got)[:400],
                        'expected': canon_outcome(expected[index])[:400]})

        # -- post state --------------------------------------------------------
        outcome = world.parse(text)

        if outcome[0] == 'ok':
            probes = ProbeSet(outcome[1], case.get('seed', 0), codec,
                              case['numeric_enums'], k=1, max_types=5)
            got = probes.apply(shared)
            want = probes.apply(oracle)
            difference = first_difference(got, want)

            if difference is not None:
                report('post-state-diff',
                       {'where': 'digest', 'index': difference[0],
                        'got': str(difference[1])[:300],
                        'expected': str(difference[2])[:300]})

        # The compiled type graph is meant to be read-only.  If it is not
        # what it was after compile, replay the history several more times
        # before the final comparison: state that only bites after
        # accumulating is then caught by the behavioural oracle.
        rounds = 1
        after, after_entries = graph.fingerprint(shared)

        if after != pristine:
            result.stats['probe-graph-state-changed'] += 1
            rounds = AMPLIFY_ROUNDS

        mismatch = False

        for round_index in range(rounds):
            for index in live:
                fn, arg = self.make_call(shared, ops[index], datas[index])
                outcome, ticks = steps.call(fn, OP_BUDGET)
                result.ticks += ticks

                if is_recursion(outcome) or is_recursion(expected[index]):
                    continue

                if canon_outcome(outcome) != canon_outcome(expected[index]):
                    report('post-state-diff',
                           {'where': 'sequential-sweep', 'op': index,
                            'replay_round': round_index,
                            'type': ops[index]['type'],
                            'graph_changes': graph.difference(
                                after_entries, pristine_entries),
                            'got': canon_outcome(outcome)[:300],
                            'expected': canon_outcome(expected[index])[:300]})
                    mismatch = True
                    break

            if mismatch:
                break

            if rounds > 1 and round_index >= 2:
                # Keep replaying only while the graph keeps changing
                # (something accumulates); a settled state has been
                # compared already.
                now = graph.fingerprint(shared)[0]

                if now == after:
                    break

                after = now

        if n_threads >= 2 and scheduler.switches >= 1:
            result.key('trace', recorded,
                       [[o['kind'], o['type']] for o in ops])

        result.log.append(['schedule', recorded[:200], scheduler.switches,
                           scheduler.clock.ticks])
        result.log.append(['outcomes',
                           [canon_outcome(outcomes[i])[:60] for i in live]])

        if len(result.samples) < 1 and n_threads >= 2:
            result.samples.append({
                'codec': codec, 'threads': n_threads,
                'schedule_policy': case['schedule'],
                'schedule_taken_head': recorded[:12],
                'context_switches': scheduler.switches,
                'ops': [[o['thread'] % n_threads, o['kind'], o['type'],
                         o.get('fault', {}).get('kind')] for o in ops[:10]],
                'injected_memoryerror_at_tick': inject_tick})

        return result

    def same_violation(self, a, b):
        return a['class'] == b['class']

    def shrink(self, case, violation):
        ops = case['ops']

        if len(ops) > 1:
            for reduced in shrink.drop_each(ops, min_len=1):
                yield dict(case, ops=reduced)

        if case['threads'] > 1:
            yield dict(case, threads=1)
            yield dict(case, threads=2)

        if case.get('inject') is not None:
            yield dict(case, inject=None)

        schedule = case['schedule']

        if schedule['kind'] != 'sequential':
            yield dict(case, schedule={'kind': 'sequential'})

        if schedule['kind'] == 'explicit':
            runs = schedule['runs']

            # Fewer context switches: merge a slice into its predecessor.
            for reduced in shrink.drop_each(runs, min_len=1):
                yield dict(case, schedule={'kind': 'explicit',
                                           'runs': reduced})

        for index, op in enumerate(ops):
            if op['kind'] == 'decode' and op['fault']['kind'] not in (
                    'none', 'raw'):
                reduced = copy.deepcopy(ops)
                reduced[index]['fault'] = {'kind': 'none'}

                yield dict(case, ops=reduced)

        keep = [op['type'] for op in ops]

        for spec in shrink.shrink_spec(case['spec'], keep=keep):
            yield dict(case, spec=spec)

    def finish(self, tier, agg):
        return {'fault_kinds_fired': {
            'failing-or-faulted-operations': sum(
                v for k, v in agg.stats.items()
                if k.startswith('op-') and k.endswith('failing-or-faulted')),
            'injected-memoryerror': agg.stats.get(
                'fault-injected-memoryerror', 0),
            'context-switches': agg.stats.get('context-switches', 0)},
            'distinct_interleavings': sum(agg.distinct.values())}


ENGINE = C18()
