"""C15 - BER/DER framing helpers agree with the decoder on where a message ends.

Simulation: `wire` in stream mode.  A sender writes 1..20 encoded messages
back to back, optionally followed by garbage, and closes the connection -
possibly in mid-message.  The channel delivers the byte stream in seeded
segments.  The receiver is the canonical reassembly loop written from the
documented contract of Specification.decode_length / decode_with_length.
After every delivered segment the oracles (a)-(d) of DESIGN C15 are checked
against what the sender really sent; additionally every prefix length of each
message's identifier+length octets (+2) is probed directly, and
decode_with_length is run on msg + several tails.
"""

import copy
import random
import time

from vsim import steps, world, specgen, shrink, wire
from vsim.rng import mix
from vsim.runner import Engine, Result
from vsim.ser import ser, deser, canon, canon_outcome

CODECS = ['ber', 'der']
FEATURES_ALWAYS = ['top_tags', 'big_tags', 'seq', 'int', 'octets', 'strings',
                   'refs', 'choice', 'class_tags']
RUN_TICKS = 6000000
HELPER_BUDGET = 20000

EXTRA_ASSIGNMENTS = [
    ['Blob9001', 'Blob9001 ::= [APPLICATION 70000] OCTET STRING'],
    ['Blob9002', 'Blob9002 ::= [PRIVATE 268435455] IMPLICIT SEQUENCE { '
                 'a9003 OCTET STRING, b9004 INTEGER OPTIONAL }'],
    ['Blob9005', 'Blob9005 ::= OCTET STRING'],
    ['Blob9006', 'Blob9006 ::= [31] EXPLICIT UTF8String'],
    # Absent OPTIONAL members with long tags in front of a short last
    # member: the tag comparison window reaches the end of the message.
    ['Tail9007', 'Tail9007 ::= SEQUENCE { x9008 [5] IMPLICIT INTEGER OPTIONAL, '
                 'y9009 [70000] IMPLICIT INTEGER OPTIONAL, '
                 'w9010 [268435455] IMPLICIT OCTET STRING OPTIONAL, '
                 'z9011 [2] IMPLICIT BOOLEAN }'],
    ['Tail9012', 'Tail9012 ::= SET { p9013 [APPLICATION 16384] IMPLICIT '
                 'UTF8String OPTIONAL, q9014 [3] IMPLICIT NULL }'],
    # Lists with an extensible SIZE constraint written on the member, last
    # in the message (fewer elements than the root allows are legal).
    ['Trail9015', 'Trail9015 ::= SEQUENCE { id9016 [0] IMPLICIT INTEGER, '
                  'samples9017 [1] IMPLICIT SEQUENCE (SIZE(1..4, ...)) OF '
                  'INTEGER }'],
    ['Trail9018', 'Trail9018 ::= SEQUENCE { tag9019 [0] IMPLICIT BOOLEAN, '
                  'set9020 [1] IMPLICIT SET (SIZE(2, ...)) OF BOOLEAN, '
                  'more9021 [2] IMPLICIT SEQUENCE (SIZE(3..5, ...)) OF '
                  'OCTET STRING OPTIONAL }'],
]


def header_length(message):
    """Identifier + length octets of a definite-length TLV (harness side)."""

    offset = 1

    if message[0] & 0x1f == 0x1f:
        while message[offset] & 0x80:
            offset += 1

        offset += 1

    first = message[offset]
    offset += 1

    if first & 0x80:
        offset += first & 0x7f

    return offset


def reframe_length(message, extra):
    """The outermost TLV with its length written in long form with
    `extra` more octets than needed (leading zero octets)."""

    header = header_length(message)
    offset = 1

    if message[0] & 0x1f == 0x1f:
        while message[offset] & 0x80:
            offset += 1

        offset += 1

    length = len(message) - header
    octets = length.to_bytes(max(1, (length.bit_length() + 7) // 8), 'big')
    octets = b'\x00' * extra + octets

    if len(octets) > 126:
        return message

    return message[:offset] + bytes([0x80 | len(octets)]) + octets \
        + message[header:]


class C15(Engine):
    property_id = 'C15'
    level = 'exploration'
    rule = ('one evaluation = one call of decode_length or '
            'decode_with_length made by the simulated stream consumer or by '
            'the direct prefix/tail probes; a stream is 1..20 valid '
            'definite-length BER/DER messages (1-5 octet tags up to 2^28, '
            'contents 0..70000 octets) + optional garbage, delivered in '
            'seeded segments and possibly closed in mid-message; '
            'non-trivial = the buffer holds a partial header, a partial '
            'message, or a message followed by further bytes; distinct = '
            'distinct (message bytes, buffer length or tail) pairs')
    assumptions = [
        'the consumer loop is harness code written from the documented '
        'contract (there is no stream consumer in the repository)',
        'messages are outputs of the real encoder (definite lengths only) '
        'that decode alone; others are skipped and counted',
        'modules and values are seeded samples',
    ]
    real_stub = {
        'real': ['asn1tools encoder, Specification.decode_length, '
                 'decode_with_length, decode'],
        'stub': ['byte stream, segmentation, close (vsim/wire.py)',
                 'stream reassembly consumer (checks/c15.py)'],
    }
    tiers = {
        'quick': dict(runs=960, wall_cap=150, chunk=6, minimise_s=40),
        'thorough': dict(runs=80000, wall_cap=3300, chunk=12, minimise_s=120),
    }

    def gen_case(self, run_seed):
        knobs = random.Random(mix(run_seed, 'knobs'))
        codec = knobs.choice(CODECS)
        rng = random.Random(mix(run_seed, 'features'))
        features = [f for f in specgen.ALL_FEATURES
                    if rng.random() < knobs.choice([0.4, 0.6, 0.8])]
        features = sorted(set(features) | set(FEATURES_ALWAYS))
        spec, text, parsed = world.gen_world(run_seed, codec,
                                             features=features)
        spec['modules'][-1]['assignments'].extend(
            copy.deepcopy(EXTRA_ASSIGNMENTS))
        text = specgen.render(spec)
        outcome = world.parse(text)
        messages = []

        if outcome[0] == 'ok':
            values = random.Random(mix(run_seed, 'values'))
            drawn = world.draw_messages(outcome[1], values,
                                        knobs.choice([1, 2, 5, 10, 20]),
                                        codec, big=knobs.random() < 0.3)
            messages = [[name, ser(value)] for name, value in drawn]

        schedule = random.Random(mix(run_seed, 'schedule'))

        return {'spec': spec, 'codec': codec, 'messages': messages,
                'garbage': bytes(schedule.randrange(256) for _ in range(
                    schedule.choice([0, 0, 1, 2, 7, 40]))).hex(),
                'close_fraction': schedule.choice([None, None,
                                                   schedule.random()]),
                'segmentation': {'seed': schedule.getrandbits(32)},
                'seed': run_seed}

    def check_rejected_alone(self, spec, type_name, message, jvalue, alone,
                             case, result, inner=()):
        rng = random.Random(mix(case.get('seed', 0), 'tails-rejected',
                                message.hex()[:64]))
        tails = [b'\x00', b'\x00\x00', b'\xff' * 3, message, message[:1],
                 bytes(rng.randrange(256)
                       for _ in range(rng.choice([1, 2, 5, 30])))]
        # ... and elements as they occur inside messages of this stream.
        tails += rng.sample(list(inner), min(6, len(inner)))
        tails += [bytes.fromhex(t) for t in case.get('extra_tails', [])]

        for tail in tails:
            data = message + tail
            outcome, ticks = steps.call(
                lambda: spec.decode_with_length(type_name, data),
                world.decode_budget(len(data)))
            result.ticks += ticks
            result.evaluations += 1
            result.stats['rejected-alone-tail-probes'] += 1

            if outcome[0] == 'ok':
                result.violation(
                    'wrong-value', {'codec': case['codec']},
                    {'type': type_name, 'message': message.hex()[:120],
                     'tail': tail.hex()[:60],
                     'decode_alone': canon_outcome(alone)[:200],
                     'decode_with_length': canon_outcome(outcome)[:200],
                     'note': 'decoding the message alone raises, decoding '
                             'it followed by other bytes returns a value'},
                    dict(case, messages=[[type_name, jvalue]],
                         extra_tails=[tail.hex()]))

                return

    def execute(self, case):
        result = Result()
        codec = case['codec']
        text = specgen.render(case['spec'])
        outcome = world.compile_text(text, codec)
        result.log.append(['compile', codec, outcome[0]])

        if outcome[0] != 'ok':
            result.stats['rejected-program'] += 1

            return result

        spec = outcome[1]
        sent = []   # (type_name, bytes, canon(decoded alone), jvalue)
        inner = []  # elements found inside the messages of this run
        rejected = []
        parsed_fresh = world.parse(text)
        parsed_fresh = parsed_fresh[1] if parsed_fresh[0] == 'ok' else None

        for type_name, jvalue in case['messages']:
            value = deser(jvalue)
            outcome, ticks = steps.call(
                lambda: spec.encode(type_name, value), world.encode_budget())
            result.ticks += ticks

            if outcome[0] != 'ok':
                result.stats['skipped-encode'] += 1
                continue

            encoded = outcome[1]

            if len(inner) < 200:
                inner.extend(bytes(encoded[node['off']:node['end']])
                             for node in wire.tlv_nodes(encoded, limit=40)
                             if node['depth'] >= 1
                             and node['end'] - node['off'] <= 48)

            outcome, ticks = steps.call(
                lambda: spec.decode(type_name, encoded),
                world.decode_budget(len(encoded)))
            result.ticks += ticks

            if outcome[0] != 'ok':
                result.stats['skipped-roundtrip'] += 1
                rejected.append((type_name, encoded, jvalue, outcome))
                continue

            sent.append((type_name, encoded, canon(outcome[1]), jvalue))

            # The same message with its outermost length in a longer (non
            # minimal, but valid BER) form - other encoders do that.  Kept
            # if the decoder accepts it alone with the same value.
            reframe_rng = random.Random(mix(case.get('seed', 0), 'reframe',
                                            len(sent)))

            if codec == 'ber' and reframe_rng.random() < 0.5:
                reframed = reframe_length(encoded,
                                          reframe_rng.choice([1, 1, 2, 3]))
                outcome2, ticks = steps.call(
                    lambda: spec.decode(type_name, reframed),
                    world.decode_budget(len(reframed)))
                result.ticks += ticks

                if outcome2[0] == 'ok' \
                        and canon(outcome2[1]) == sent[-1][2]:
                    sent.append((type_name, reframed, canon(outcome2[1]),
                                 jvalue))
                    result.stats['messages-with-long-form-length'] += 1

            # The same message as a sender with a NEWER version of an
            # extensible type would produce it: an unknown element appended
            # at the end of the outermost (or a last-nested) constructed
            # node.  Kept if the decoder accepts it alone (it is then a
            # valid encoding for this specification).
            variant_rng = random.Random(mix(case.get('seed', 0), 'unknown',
                                            len(sent)))

            if variant_rng.random() < 0.7 and encoded[:1] in (
                    b'\x30', b'\x31') and self.extensible_at_end(
                        parsed_fresh, type_name):
                unknown = variant_rng.choice([
                    b'\x9f\x7d\x01\x2a', b'\xbf\x7e\x03\x02\x01\x05',
                    b'\x9e\x00', b'\xdf\x87\x68\x02\xab\xcd'])
                extended = wire.append_unknown_addition(encoded, 0, unknown)

                if extended is not None:
                    outcome, ticks = steps.call(
                        lambda: spec.decode(type_name, extended),
                        world.decode_budget(len(extended)))
                    result.ticks += ticks

                    if outcome[0] == 'ok':
                        sent.append((type_name, extended, canon(outcome[1]),
                                     jvalue))
                        result.stats['messages-with-unknown-additions'] += 1

        # The decoder rejects the encoder's own output (a C01 matter) - but
        # then it must reject it whatever follows: an answer that depends on
        # the trailing bytes is a framing disagreement.
        inner = sorted(set(inner))

        for type_name, encoded, jvalue, outcome in rejected[:8]:
            self.check_rejected_alone(spec, type_name, encoded, jvalue,
                                      outcome, case, result, inner)

        if not sent:
            return result

        def violation(cls, detail, keep):
            """keep: indices into `sent` needed to reproduce."""

            messages = [[sent[i][0], sent[i][3]] for i in keep]
            small = dict(case, messages=messages)

            if detail.get('tail'):
                # (The tail may come from another message of the stream.)
                small['extra_tails'] = [detail['tail']]

            result.violation(cls, {'codec': codec}, detail, small)

        # -- direct probes: every prefix of the header (+2), and tails -------
        rng = random.Random(mix(case.get('seed', 0), 'tails'))

        for index, (type_name, message, expected, _) in enumerate(sent):
            if result.ticks > RUN_TICKS:
                result.stats['run-tick-cap-stops'] += 1
                break

            header = header_length(message)
            total = len(message)
            tag_octets = self.tag_octets(message)
            result.stats['tag-octets-{}'.format(tag_octets)] += 1
            result.stats['length-octets-{}'.format(header - tag_octets)] += 1

            for k in sorted(set(list(range(0, min(total, header + 2) + 1))
                                + [total])):
                prefix = message[:k]
                outcome, ticks = steps.call(
                    lambda: spec.decode_length(prefix), HELPER_BUDGET)
                result.ticks += ticks
                result.evaluations += 1
                result.key(message.hex()[:200], len(message), 'p', k)
                want = total if k >= header else None
                got = self.helper_value(outcome)

                if got != want:
                    cls = self.length_class(outcome, want)
                    violation(cls, {'type': type_name,
                                    'message': message.hex()[:120],
                                    'message_length': total,
                                    'header_octets': header,
                                    'prefix_length': k,
                                    'decode_length': got,
                                    'expected': want}, [index])

            other = sent[(index + 1) % len(sent)][1]
            tails = [b'', b'\x00\x00', b'\x00', other, other[:1],
                     bytes(rng.randrange(256)
                           for _ in range(rng.choice([1, 2, 5, 30]))),
                     b'\xff' * 3, message]
            # ... and elements as they occur inside messages of this
            # stream (what a decoder reading past the end would accept).
            tails += rng.sample(inner, min(3, len(inner)))
            tails += [bytes.fromhex(t) for t in case.get('extra_tails', [])]

            for tail in tails:
                data = message + tail

                if tail:
                    outcome, ticks = steps.call(
                        lambda: spec.decode_length(data), HELPER_BUDGET)
                    result.ticks += ticks
                    result.evaluations += 1
                    got = self.helper_value(outcome)

                    if got != total:
                        violation(self.length_class(outcome, total),
                                  {'type': type_name,
                                   'message': message.hex()[:120],
                                   'tail': tail.hex()[:60],
                                   'decode_length': got, 'expected': total},
                                  [index, (index + 1) % len(sent)])

                outcome, ticks = steps.call(
                    lambda: spec.decode_with_length(type_name, data),
                    world.decode_budget(len(data)))
                result.ticks += ticks
                result.evaluations += 1
                result.key(message.hex()[:200], len(message), 't',
                           tail.hex()[:64])
                self.check_with_length(outcome, total, expected, violation,
                                       {'type': type_name,
                                        'message': message.hex()[:120],
                                        'tail': tail.hex()[:200]},
                                       [index, (index + 1) % len(sent)])

        # -- the stream -------------------------------------------------------
        stream = b''.join(message for _, message, _, _ in sent)
        stream += bytes.fromhex(case.get('garbage', ''))
        garbage_start = len(stream) - len(bytes.fromhex(case.get('garbage',
                                                                 '')))

        if case.get('close_fraction') is not None:
            # The sender dies inside the last message.
            last_start = garbage_start - len(sent[-1][1])
            close_at = last_start + int(case['close_fraction']
                                        * len(sent[-1][1]))
            stream = stream[:close_at]
            result.stats['streams-closed-mid-message'] += 1

        sizes = wire.segments_from(case['segmentation'], len(stream))
        result.stats['streams'] += 1
        result.stats['segments'] += len(sizes)
        buf = b''
        position = 0
        delivered = []
        next_message = 0
        stopped = False
        capped = False
        all_indices = list(range(len(sent)))

        stream_started = time.time()

        for size in sizes:
            if stopped:
                break

            if result.ticks > 2 * RUN_TICKS \
                    or time.time() - stream_started > 60:
                # Simulated-time cap of the run: the stream is abandoned,
                # nothing can be said about what was not delivered yet.
                result.stats['streams-abandoned-at-tick-cap'] += 1
                capped = True
                break

            buf += stream[position:position + size]
            position += size

            while buf and not stopped:
                outcome, ticks = steps.call(
                    lambda: spec.decode_length(buf), HELPER_BUDGET)
                result.ticks += ticks
                result.evaluations += 1
                got = self.helper_value(outcome)

                if next_message < len(sent):
                    type_name, message, expected, _ = sent[next_message]
                    total = len(message)
                    header = header_length(message)
                    want = total if len(buf) >= header else None
                    result.key(message.hex()[:200], total, 's',
                               min(len(buf), total + 1))

                    if len(buf) < total:
                        result.stats['partial-buffer-probes'] += 1

                    if got != want:
                        violation(self.length_class(outcome, want),
                                  {'type': type_name, 'where': 'stream',
                                   'buffer_length': len(buf),
                                   'buffer_head': buf.hex()[:80],
                                   'decode_length': got, 'expected': want},
                                  all_indices)
                        stopped = True
                        break

                    if got is None or len(buf) < got:
                        break   # wait for more bytes

                    outcome, ticks = steps.call(
                        lambda: spec.decode_with_length(type_name, buf),
                        world.decode_budget(len(buf)))
                    result.ticks += ticks
                    result.evaluations += 1
                    ok = self.check_with_length(
                        outcome, total, expected, violation,
                        {'type': type_name, 'where': 'stream',
                         'buffer_length': len(buf)}, all_indices)

                    if not ok:
                        stopped = True
                        break

                    delivered.append(next_message)
                    next_message += 1
                    buf = buf[total:]
                else:
                    # Only garbage is left: any answer is acceptable as long
                    # as the helper terminates without a foreign exception.
                    if outcome[0] == 'hang':
                        violation('hang', {'where': 'garbage',
                                           'buffer_head': buf.hex()[:80]},
                                  all_indices)

                    result.stats['garbage-probes'] += 1
                    stopped = True

        # (c) exactly once, in order; (d) nothing delivered from a partial
        # tail.
        complete = 0
        offset = 0

        for _, message, _, _ in sent:
            offset += len(message)

            if offset <= len(stream):
                complete += 1

        if not capped and (not stopped or next_message >= len(sent)):
            if delivered != list(range(complete)) and not result.violations:
                violation('history', {'delivered': delivered,
                                      'complete_messages_sent': complete},
                          all_indices)

        result.stats['messages-delivered'] += len(delivered)
        result.log.append(['stream', len(stream), sizes[:50], delivered])

        if len(result.samples) < 1:
            result.samples.append({
                'codec': codec,
                'messages': [[name, len(message), header_length(message),
                              message.hex()[:24]]
                             for name, message, _, _ in sent[:6]],
                'garbage': case.get('garbage', '')[:20],
                'closed_mid_message': case.get('close_fraction') is not None,
                'segments': sizes[:20],
                'delivered': delivered})

        return result

    @staticmethod
    def extensible_at_end(parsed, type_name):
        """True if the (untagged) top-level type is a SEQUENCE or SET whose
        extension insertion point is the end of its component list, so that
        an unknown element appended to the contents is a valid encoding of
        a later version of the type."""

        if parsed is None:
            return False

        for module in parsed.values():
            desc = module['types'].get(type_name)

            if desc is None:
                continue

            for _ in range(20):
                if 'tag' in desc or 'actual-parameters' in desc:
                    return False

                if desc['type'] in ('SEQUENCE', 'SET'):
                    members = desc['members']
                    markers = [m for m in members if m is None]

                    if any(isinstance(m, dict) and 'components-of' in m
                           for m in members):
                        return False

                    if len(markers) == 1:
                        return True

                    return (not markers
                            and module.get('extensibility-implied', False))

                target = module['types'].get(desc['type'])

                if target is None:
                    return False

                desc = target

        return False

    @staticmethod
    def tag_octets(message):
        offset = 1

        if message[0] & 0x1f == 0x1f:
            while message[offset] & 0x80:
                offset += 1

            offset += 1

        return offset

    @staticmethod
    def helper_value(outcome):
        if outcome[0] == 'ok':
            return outcome[1]

        return 'raised:' + canon_outcome(outcome)[:120]

    @staticmethod
    def length_class(outcome, want):
        if outcome[0] == 'hang':
            return 'hang'

        if outcome[0] != 'ok':
            return 'foreign'

        if outcome[1] is None:
            return 'late-known'

        if want is None:
            return 'premature-known'

        return 'wrong-length'

    @staticmethod
    def check_with_length(outcome, total, expected, violation, detail, keep):
        if outcome[0] == 'hang':
            violation('hang', detail, keep)

            return False

        if outcome[0] != 'ok':
            violation('wrong-value',
                      dict(detail, got=canon_outcome(outcome)[:200],
                           expected='value'), keep)

            return False

        value, used = outcome[1]

        if used != total:
            violation('wrong-consumed',
                      dict(detail, consumed=used, expected=total), keep)

            return False

        if canon(value) != expected:
            violation('wrong-value',
                      dict(detail, got=canon(value)[:200],
                           expected=expected[:200]), keep)

            return False

        return True

    def shrink(self, case, violation):
        messages = case['messages']

        if len(messages) > 1:
            for reduced in shrink.drop_each(messages, min_len=1):
                yield dict(case, messages=reduced)

        if case.get('garbage'):
            yield dict(case, garbage='')

        if case.get('close_fraction') is not None:
            yield dict(case, close_fraction=None)

        if 'seed' in case['segmentation']:
            yield dict(case, segmentation={'sizes': [1]})
            yield dict(case, segmentation={'sizes': [1 << 30]})

        keep = [message[0] for message in messages]

        for spec in shrink.shrink_spec(case['spec'], keep=keep):
            yield dict(case, spec=spec)

    def finish(self, tier, agg):
        return {'fault_kinds_fired': {
            'segment-boundary-inside-message': agg.stats.get(
                'partial-buffer-probes', 0),
            'close-in-mid-message': agg.stats.get(
                'streams-closed-mid-message', 0),
            'trailing-garbage-reached': agg.stats.get('garbage-probes', 0)}}


ENGINE = C15()
