"""C13 - compiling is independent of what was compiled before from the same
dictionary.

Simulation: ONE parsed dictionary lives through a history of operations -
compile_dict for any codec/numeric_enums (each rewrites it in place three
times), pre_process_dict, persist/restore through pformat + exec (the
`asn1tools parse` / .py specification path, in memory or through the real
file loading code), deepcopy.  Reference model: compile_string on a fresh
parse of the original text.  After every compile of the history the outcome
class must agree and the behaviour digest (same bytes, same decoded values,
same errors on a seeded probe set) must be equal; after every persist the
restored dictionary must equal the live one and contain plain literals only.
"""

import copy
import glob
import os
import pprint
import random
import tempfile

from vsim import VERIF, REPO, steps, world, specgen, shrink
from vsim.digest import ProbeSet, first_difference
from vsim.rng import mix
from vsim.runner import Engine, Result
from vsim.ser import canon_outcome

CODECS = ['ber', 'der', 'per', 'uper', 'oer', 'jer', 'xer', 'gser']
CONFIGS = [(codec, flag) for codec in CODECS for flag in (False, True)]
FEATURES_BIAS = ['default', 'enum', 'bits', 'bits_named', 'octets',
                 'components_of', 'ext_implied', 'imports', 'refs', 'seq',
                 'int', 'optional', 'ext', 'ext_groups', 'choice', 'set',
                 'strings']
PLAIN = (dict, list, tuple, str, int, float, bytes, bool, type(None))
# any_defined_by_choices for corpus/dense5.asn and hand-written probes.
ADBC = {('AnyMod', 'Fie', 'fum'): {1: 'INTEGER', 2: 'BOOLEAN'},
        ('AnyMod', 'Foe', 'body'): {0: 'NULL', 3: 'IA5String'}}
ADBC_PROBES = [('Fie', {'id': 1, 'fum': 5}),
               ('Fie', {'id': 2, 'fum': True}),
               ('Fie', {'id': 1, 'fum': b'\x02\x01\x05'}),
               ('Foe', {'kind': 3, 'body': 'abc'}),
               ('Foe', {'kind': 3, 'name': 'n', 'body': b'\x16\x01a'}),
               ('Plain', {'a': 1})]


def plain_only(value, depth=0):
    if depth > 200:
        return False

    if not isinstance(value, PLAIN):
        return False

    if isinstance(value, dict):
        return all(plain_only(k, depth + 1) and plain_only(v, depth + 1)
                   for k, v in value.items())

    if isinstance(value, (list, tuple)):
        return all(plain_only(v, depth + 1) for v in value)

    return True


def corpus_texts(tier):
    """[(name, text)] - hand-written corpus plus (thorough) repository
    fixtures that parse."""

    texts = []

    for path in sorted(glob.glob(os.path.join(VERIF, 'corpus', 'dense*.asn'))):
        with open(path) as fin:
            texts.append(('corpus/' + os.path.basename(path), fin.read()))

    if tier == 'thorough':
        for name in LIGHT_FIXTURES + HEAVY_FIXTURES:
            path = os.path.join(REPO, 'tests', 'files', name)

            if os.path.exists(path):
                with open(path, encoding='utf-8') as fin:
                    texts.append(('fixture/' + name, fin.read()))

    return texts


# Repository fixtures that parse here; the heavy ones (seconds per compile
# under the step clock) only get a few persisted-first histories.
LIGHT_FIXTURES = ['foo.asn', 'all_types_automatic_tags.asn',
                  'extensibility_implied.asn', 'module_tags_automatic.asn',
                  'module_tags_explicit.asn', 'module_tags_implicit.asn',
                  'named_numbers.asn', 'enumerated.asn',
                  'constraints_extensions.asn', 'time_types.asn']
HEAVY_FIXTURES = ['all_types.asn', 'ietf/rfc4511.asn', 'ietf/rfc5280.asn',
                  'information_object.asn']


class C13(Engine):
    property_id = 'C13'
    level = 'exploration'
    rule = ('one evaluation = one compile_dict call inside a history on a '
            'shared dictionary, compared (outcome class + behaviour digest '
            'over a seeded probe set of valid values, one corrupted value, '
            'one malformed input, decode_length prefixes) with compile_string '
            'on a fresh parse; histories: up to 6 compiles over 8 codecs + '
            'one unknown codec x numeric_enums, interleaved with up to 6 '
            'pre_process_dict / pformat-exec persist / file persist / '
            'deepcopy / CLI double-compile steps; plus complete enumeration '
            'of all 256 ordered (codec, flag) pairs on each corpus module; '
            'non-trivial = a compile preceded by at least one other '
            'operation on the same dictionary; distinct = distinct (module '
            'text, operation prefix) pairs')
    assumptions = [
        '"behaves exactly like" is decided on a seeded probe set (digest), '
        'not on all values',
        'aborting a compile at an arbitrary tick is not part of the '
        'statement and is not injected (DESIGN C13)',
    ]
    real_stub = {
        'real': ['asn1tools parser, compile_dict, pre_process_dict, all '
                 'codecs, pformat/exec persistence, asn1tools._import_module '
                 '(file persist steps)'],
        'stub': [],
    }
    tiers = {
        'quick': dict(runs=400, wall_cap=170, chunk=2, minimise_s=60),
        'thorough': dict(runs=20000, wall_cap=3300, chunk=4, minimise_s=180),
    }

    def plan(self, tier, seed, runs):
        items = []

        # Complete pair enumeration on the corpus: one item per (module,
        # first config) = 16 histories of two compiles each.
        for name, _ in corpus_texts(tier):
            # A dictionary that went through pformat/exec before its first
            # compile (the `asn1tools parse` + .py specification path).
            items.append({'kind': 'persisted', 'corpus': name, 'first': 0,
                          'tier': tier,
                          'seed': mix(seed, 'persisted', name)})

            # ... and one that is written out after it has been compiled
            # (what the compile left in it must be plain, readable data).
            items.append({'kind': 'persist-after', 'corpus': name, 'first': 0,
                          'tier': tier,
                          'seed': mix(seed, 'persist-after', name)})

            if name.startswith('fixture/') \
                    and name[len('fixture/'):] in HEAVY_FIXTURES:
                continue

            for first in range(len(CONFIGS)):
                items.append({'kind': 'pairs', 'corpus': name,
                              'first': first, 'tier': tier,
                              'seed': mix(seed, 'pairs', name, first)})

                if tier == 'thorough':
                    items.append({'kind': 'triples', 'corpus': name,
                                  'first': first, 'tier': tier,
                                  'seed': mix(seed, 'triples', name, first)})

        # The any_defined_by_choices option of compile_dict (it is written
        # into the dictionary): all ordered pairs with / without choices,
        # for the codecs where it matters.
        for codec in ['ber', 'der', 'per', 'uper', 'oer', 'jer']:
            items.append({'kind': 'adbc', 'corpus': 'corpus/dense5.asn',
                          'codec': codec, 'tier': tier,
                          'seed': mix(seed, 'adbc', codec)})

        items.extend(Engine.plan(self, tier, seed, runs))

        return items

    def run_item(self, item):
        if item['kind'] == 'random':
            return self.execute(self.gen_case(item['seed']))

        texts = dict(corpus_texts(item['tier']))
        text = texts[item['corpus']]
        result = Result()
        first = CONFIGS[item.get('first', 0)]

        if item['kind'] == 'adbc':
            codec = item['codec']
            result = Result()

            for pattern in ([True, False], [False, True], [True, True],
                            [True, False, True], [False, False]):
                steps_ = [{'op': 'compile', 'codec': codec,
                           'numeric_enums': False, 'adbc': flag}
                          for flag in pattern]
                steps_.insert(1, {'op': 'persist'}) if len(pattern) == 3 \
                    else None
                case = {'text': text, 'name': item['corpus'],
                        'steps': steps_, 'seed': item['seed'],
                        'check': 'all'}
                sub = self.execute(case)
                result.stats.update(sub.stats)
                result.violations.extend(sub.violations[:2])
                result.merge_distinct(sub.distinct.items())
                result.ticks += sub.ticks
                result.evaluations += sub.evaluations
                result.log.extend(sub.log)

            result.stats['corpus-adbc-histories'] += 5

            return result

        if item['kind'] == 'pairs':
            histories = [[first, second] for second in CONFIGS]
        elif item['kind'] == 'persisted':
            histories = [[config] for config in CONFIGS]

            if item['corpus'].startswith('fixture/') \
                    and item['corpus'][len('fixture/'):] in HEAVY_FIXTURES:
                histories = [[('ber', False)], [('uper', True)],
                             [('jer', False)]]
        elif item['kind'] == 'persist-after':
            rng = random.Random(item['seed'])
            histories = [[('ber', False), ('uper', True)],
                         [('jer', True), ('ber', False)],
                         [('oer', False), ('xer', False)],
                         [rng.choice(CONFIGS), rng.choice(CONFIGS)]]

            if item['corpus'].startswith('fixture/') \
                    and item['corpus'][len('fixture/'):] in HEAVY_FIXTURES:
                histories = histories[:1]
        else:
            rng = random.Random(item['seed'])
            histories = [[first, rng.choice(CONFIGS), rng.choice(CONFIGS)]
                         for _ in range(16)]

        for history in histories:
            steps_ = []

            if item['kind'] == 'persisted':
                steps_.append({'op': 'persist'})

            for index, (codec, flag) in enumerate(history):
                steps_.append({'op': 'compile', 'codec': codec,
                               'numeric_enums': flag})

                if item['kind'] in ('triples', 'persist-after') \
                        and index == 0:
                    steps_.append({'op': 'persist'})

            case = {'text': text, 'name': item['corpus'], 'steps': steps_,
                    'seed': item['seed'], 'check': 'last'}
            sub = self.execute(case)
            result.stats.update(sub.stats)
            result.violations.extend(sub.violations[:2])
            result.merge_distinct(sub.distinct.items())
            result.ticks += sub.ticks
            result.evaluations += sub.evaluations
            result.log.extend(sub.log)

        result.stats['corpus-{}-histories'.format(item['kind'])] += \
            len(histories)

        return result

    def gen_case(self, run_seed):
        knobs = random.Random(mix(run_seed, 'knobs'))
        rng = random.Random(mix(run_seed, 'features'))
        p = knobs.choice([0.4, 0.6, 0.8])
        features = sorted(set(
            [f for f in specgen.ALL_FEATURES if rng.random() < p]
            + [f for f in FEATURES_BIAS if rng.random() < 0.8]
            + ['seq', 'int']))
        spec, text, parsed = world.gen_world(
            run_seed, knobs.choice(CODECS), features=features,
            knobs={'n_types': knobs.choice([2, 3, 5]),
                   'max_members': knobs.choice([2, 3, 5]),
                   'max_depth': knobs.choice([1, 2, 3])})
        ops = random.Random(mix(run_seed, 'ops'))
        steps_ = []
        compiles = 0
        others = 0

        while compiles < knobs.choice([2, 3, 4, 6]):
            roll = ops.random()

            if roll < 0.6 or others >= 6:
                codec, flag = ops.choice(CONFIGS)

                if ops.random() < 0.04:
                    codec = 'nope'

                steps_.append({'op': 'compile', 'codec': codec,
                               'numeric_enums': flag})
                compiles += 1
            else:
                steps_.append({'op': ops.choice(
                    ['persist', 'persist', 'persist_file', 'deepcopy',
                     'pre_process', 'cli_double'])})
                others += 1

                if steps_[-1]['op'] == 'cli_double':
                    steps_[-1]['codecs'] = [ops.choice(CODECS),
                                            ops.choice(CODECS)]

        return {'spec': spec, 'steps': steps_, 'seed': run_seed,
                'check': 'all'}

    # -- execution ------------------------------------------------------------

    def execute(self, case):
        import asn1tools

        result = Result()

        if 'text' in case:
            text = case['text']
        else:
            text = specgen.render(case['spec'])

        outcome = world.parse(text)

        if outcome[0] != 'ok':
            result.stats['rejected-program'] += 1

            return result

        live = outcome[1]
        fresh = world.parse(text)[1]   # for probe generation only
        references = {}
        probesets = {}
        seed = case.get('seed', 0)
        prefix = []

        def reference(codec, flag, adbc=False):
            key = (codec, flag, adbc)

            if key not in references:
                compiled, ticks = steps.call(
                    lambda: asn1tools.compile_string(
                        text, codec,
                        any_defined_by_choices=ADBC if adbc else None,
                        numeric_enums=flag),
                    world.COMPILE_BUDGET)
                result.ticks += ticks
                digest = None

                if compiled[0] == 'ok':
                    probesets[key] = ProbeSet(
                        fresh, seed, codec, flag, k=2, max_types=8,
                        extra=ADBC_PROBES if 'AnyMod' in fresh else ())
                    digest = probesets[key].apply(compiled[1])

                references[key] = (compiled, digest)

            return references[key]

        def report(cls, detail, index):
            small = dict(case, steps=copy.deepcopy(case['steps'][:index + 1]))
            persisted = any(s['op'] in ('persist', 'persist_file')
                            for s in case['steps'][:index])
            result.violation(cls, {'step': case['steps'][index]['op'],
                                   'persisted_before': persisted},
                             detail, small)

        def check_compile(index, codec, flag, compiled, is_last, adbc=False):
            expected, want = reference(codec, flag, adbc)
            result.evaluations += 1
            result.stats['compiles'] += 1

            if prefix:
                result.key(text, prefix + [[codec, flag, adbc]])

            # A rejected compile yields no codec object; the statement says
            # nothing about the text of that rejection (it names the first
            # module that fails, which depends on module order), so only
            # the exception type is compared.
            if compiled[0] != expected[0] or (
                    compiled[0] != 'ok' and compiled[1] != expected[1]):
                report('compile-outcome-diff',
                       {'codec': codec, 'numeric_enums': flag,
                        'history': prefix,
                        'got': canon_outcome(compiled)[:300]
                        if compiled[0] != 'ok' else 'Specification',
                        'expected': canon_outcome(expected)[:300]
                        if expected[0] != 'ok' else 'Specification'}, index)

                return

            if compiled[0] != 'ok':
                result.stats['compile-rejected-equally'] += 1

                return

            # "Every resulting codec object": the objects compiled earlier
            # are kept and looked at again when the history is over.
            retained.append((codec, flag, adbc, compiled[1], list(prefix)
                             + [[codec, flag]]))

            if case.get('check') == 'last' and not is_last:
                return

            got = probesets[(codec, flag, adbc)].apply(compiled[1])
            result.stats['digests-compared'] += 1
            difference = first_difference(got, want)

            if difference is not None:
                report('digest-diff',
                       {'codec': codec, 'numeric_enums': flag,
                        'history': prefix, 'probe': difference[0],
                        'got': str(difference[1])[:400],
                        'expected': str(difference[2])[:400]}, index)

        last_compile = max([i for i, s in enumerate(case['steps'])
                            if s['op'] in ('compile', 'cli_double')] or [-1])
        retained = []

        for index, step in enumerate(case['steps']):
            op = step['op']
            result.stats['step-' + op] += 1

            if op == 'compile':
                codec, flag = step['codec'], step['numeric_enums']
                adbc = bool(step.get('adbc'))
                compiled, ticks = steps.call(
                    lambda: asn1tools.compile_dict(
                        live, codec,
                        any_defined_by_choices=ADBC if adbc else None,
                        numeric_enums=flag),
                    world.COMPILE_BUDGET)
                result.ticks += ticks
                check_compile(index, codec, flag, compiled,
                              index == last_compile, adbc)
                prefix.append([codec, flag, 'choices'] if adbc
                              else [codec, flag])
            elif op == 'cli_double':
                # asn1tools convert / shell: the same dict compiled for the
                # input and the output codec.
                for codec in step['codecs']:
                    compiled, ticks = steps.call(
                        lambda: asn1tools.compile_dict(live, codec),
                        world.COMPILE_BUDGET)
                    result.ticks += ticks
                    check_compile(index, codec, False, compiled,
                                  index == last_compile)
                    prefix.append([codec, False])
            elif op == 'pre_process':
                outcome, ticks = steps.call(
                    lambda: asn1tools.pre_process_dict(live),
                    world.COMPILE_BUDGET)
                result.ticks += ticks

                if outcome[0] == 'ok':
                    live = outcome[1]

                prefix.append(['pre_process'])
            elif op == 'deepcopy':
                live = copy.deepcopy(live)
                prefix.append(['deepcopy'])
            elif op in ('persist', 'persist_file'):
                source = 'SPECIFICATION = {}'.format(pprint.pformat(live))

                try:
                    if op == 'persist':
                        namespace = {}
                        exec(source, namespace)
                        restored = namespace['SPECIFICATION']
                    else:
                        directory = tempfile.mkdtemp(prefix='vsim-c13-')

                        try:
                            path = os.path.join(directory, 'specmod.py')

                            with open(path, 'w') as fout:
                                fout.write(source)

                            module = asn1tools._import_module(path)
                            restored = module.SPECIFICATION
                        finally:
                            for name in os.listdir(directory):
                                target = os.path.join(directory, name)

                                if os.path.isdir(target):
                                    for inner in os.listdir(target):
                                        os.unlink(os.path.join(target, inner))

                                    os.rmdir(target)
                                else:
                                    os.unlink(target)

                            os.rmdir(directory)
                except Exception as e:
                    report('persist-not-faithful',
                           {'history': prefix, 'error': repr(e)[:300]}, index)
                    prefix.append([op])
                    continue

                result.stats['persist-checks'] += 1

                if restored != live or not plain_only(restored):
                    report('persist-not-faithful',
                           {'history': prefix,
                            'equal': restored == live,
                            'plain': plain_only(restored)}, index)

                live = restored
                prefix.append([op])

        # A later compile of the same dictionary must not change the
        # codec objects it produced earlier (aliasing between the
        # dictionary and compiled objects): the first one is probed again.
        if len(retained) > 1 and not result.violations:
            codec, flag, adbc, spec, made_after = retained[0]
            want = reference(codec, flag, adbc)[1]
            got = probesets[(codec, flag, adbc)].apply(spec)
            result.stats['earlier-objects-probed-again'] += 1
            difference = first_difference(got, want)

            if difference is not None:
                report('digest-diff',
                       {'codec': codec, 'numeric_enums': flag,
                        'history': prefix, 'made_after': made_after,
                        'note': 'a codec object compiled earlier in the '
                                'history behaves differently once the '
                                'later steps have run',
                        'probe': difference[0],
                        'got': str(difference[1])[:400],
                        'expected': str(difference[2])[:400]},
                       len(case['steps']) - 1)

        result.log.append(['history', prefix, result.evaluations,
                           sorted(result.stats.items())])

        if len(result.samples) < 1 and len(prefix) > 2:
            result.samples.append({'module': case.get('name', 'generated'),
                                   'history': prefix})

        return result

    def same_violation(self, a, b):
        return a['class'] == b['class'] and (
            (a.get('signature') or {}).get('persisted_before')
            == (b.get('signature') or {}).get('persisted_before'))

    def shrink(self, case, violation):
        steps_ = case['steps']

        if len(steps_) > 1:
            # The last step is the failing one: keep it.
            for reduced in shrink.drop_each(steps_[:-1]):
                yield dict(case, steps=reduced + [steps_[-1]])

        if 'spec' in case:
            for spec in shrink.shrink_spec(case['spec']):
                yield dict(case, spec=spec)

    def finish(self, tier, agg):
        return {'exhaustive_note': 'all 256 ordered (codec, numeric_enums) '
                                   'pairs are enumerated on each corpus '
                                   'module; everything else is sampled',
                'fault_kinds_fired': {
                    'persist-restore': agg.stats.get('step-persist', 0)
                    + agg.stats.get('step-persist_file', 0),
                    'rejected-compile-in-history': agg.stats.get(
                        'compile-rejected-equally', 0)}}


ENGINE = C13()
