"""C08 - decoding arbitrary bytes terminates within bounded time and memory and
leaves no state behind.

Simulation: `wire` in datagram mode.  A sender node encodes a seeded sequence
of messages; the channel injects one fault recipe per message (or none); the
receiver decodes every delivered datagram on ONE long-lived Specification
under the step clock.  Oracles: bounded liveness in simulated time, bounded
memory (sampled runs, tracemalloc + RLIMIT_AS backstop), no residue (un-faulted
messages and the final behaviour digest equal those of a reference
specification that never saw a faulted input).
"""

import copy
import glob
import os
import random
import resource
import tracemalloc

from vsim import VERIF, steps, world, specgen, shrink, wire, graph
from vsim.digest import ProbeSet, first_difference
from vsim.rng import mix
from vsim.runner import Engine, Result
from vsim.ser import ser, deser, canon_outcome

CODECS = ['ber', 'der', 'per', 'uper', 'oer', 'jer', 'xer']
MEMORY_BASE = 2 * 1024 * 1024
MEMORY_PER_BYTE = 8 * 1024
RUN_TICKS = 8000000
AMPLIFY_ROUNDS = 80
CLIMB_MAX_LEN = 240
CLIMB_KEEP = 6
CLIMB_CHILDREN = 8
CLIMB_GENERATIONS = 600
CLIMB_PATIENCE = 25
_RLIMIT_SET = [False]


def set_rlimit():
    if not _RLIMIT_SET[0]:
        limit = 8 * 1024 ** 3

        try:
            resource.setrlimit(resource.RLIMIT_AS, (limit, limit))
        except (ValueError, OSError):
            pass

        _RLIMIT_SET[0] = True


class C08(Engine):
    property_id = 'C08'
    level = 'exploration'
    rule = ('one evaluation = one decode, on a long-lived receiver '
            'Specification, of a datagram produced by applying one fault '
            'recipe (cut, bit flips, insert, delete, duplicate range, splice '
            'with another message, garbage <= 4 KiB, byte substitution, '
            'first-64-bit flips; BER/DER: retag, length +-1/0/indefinite/'
            'huge/long-form, drop/dup/swap node, injected EOC, constructed '
            're-wrap; JER/XER: structural text edits) to a valid encoding of '
            'a seeded value of a seeded module - or, in climb items, produced '
            'by up to 600 generations of such recipes with the step clock as '
            'fitness; non-trivial = the delivered '
            'bytes differ from the valid encoding; distinct = distinct '
            '(codec, type text hash, delivered bytes)')
    assumptions = [
        'liveness bound: a decode may use 20000 + 2000 * len(input) line '
        'events inside asn1tools (valid decodes measure < 120 per byte)',
        'memory bound (sampled runs): tracemalloc peak <= 2 MiB + 8 KiB * '
        'len(input); RLIMIT_AS 8 GiB backstop in every worker',
        'list element types with a zero-width encoding are not generated '
        'for PER/UPER/OER (a 5-byte input is then a legal list of 2^32 '
        'elements; no decoder can be linear there)',
        'CPU time spent inside single C calls (big-int shifts, json, expat) '
        'is not seen by the step clock',
    ]
    real_stub = {
        'real': ['asn1tools parser, compilers, encoders, decoders'],
        'stub': ['datagram channel and its fault recipes (vsim/wire.py)'],
    }
    tiers = {
        'quick': dict(runs=1600, wall_cap=170, chunk=4, minimise_s=40,
                      stuck_after_s=240, hang_confirm_s=300),
        'thorough': dict(runs=60000, wall_cap=3300, chunk=8, minimise_s=120,
                         stuck_after_s=600, hang_confirm_s=900),
    }

    # -- cost-guided search ------------------------------------------------------

    def plan(self, tier, seed, runs):
        # (First: on a loaded machine the wall cap cuts the end of the plan.)
        items = [{'kind': 'climb', 'seed': mix(seed, 'C08-climb', index)}
                 for index in range(max(16, runs * 3 // 20))]
        items.extend(Engine.plan(self, tier, seed, runs))

        return items

    def run_item(self, item):
        if item['kind'] == 'climb':
            return self.run_climb(item)

        return self.execute(self.gen_case(item['seed']))

    def run_climb(self, item):
        """The step clock as feedback: a population of inputs of one type,
        starting from valid encodings of small values, is mutated for some
        generations; the inputs that cost the most ticks per byte survive.
        Super-linear decoders (work doubling with every tampered length at
        another nesting level) are climbed until the liveness bound of the
        property is exceeded - which single faults on valid traffic do not
        reach.  Deterministic: everything derives from the item seed."""

        set_rlimit()
        result = Result()
        seed = item['seed']
        knobs = random.Random(mix(seed, 'knobs'))
        codec = knobs.choice(CODECS)
        corpus = sorted(glob.glob(os.path.join(VERIF, 'corpus', 'hot*.asn'))
                        + glob.glob(os.path.join(VERIF, 'corpus', 'wire*.asn')))

        if corpus and knobs.random() < 0.4:
            with open(knobs.choice(corpus)) as fin:
                text = fin.read()

            spec = {'modules': [], 'corpus': True}
            outcome = world.parse(text)
            parsed = outcome[1] if outcome[0] == 'ok' else None
        else:
            rng = random.Random(mix(seed, 'features'))
            features = sorted(set(
                [f for f in specgen.ALL_FEATURES if rng.random() < 0.4]
                + ['ext', 'ext_groups', 'choice', 'seqof', 'seq', 'int',
                   'optional', 'refs', 'recursion']))
            spec, text, parsed = world.gen_world(seed, codec,
                                                 features=features)

        if parsed is None:
            result.stats['rejected-program'] += 1

            return result

        compiled = world.compile_text(text, codec)
        result.log.append(['climb-compile', codec, compiled[0]])

        if compiled[0] != 'ok':
            result.stats['rejected-program'] += 1

            return result

        receiver = compiled[1]
        values = random.Random(mix(seed, 'values'))
        drawn = world.draw_messages(parsed, values, 12, codec, max_depth=3)
        by_type = {}

        for type_name, value in drawn:
            outcome, _ = steps.call(
                lambda: receiver.encode(type_name, value),
                world.encode_budget())

            if outcome[0] == 'ok' and 0 < len(outcome[1]) <= CLIMB_MAX_LEN:
                by_type.setdefault(type_name, []).append(outcome[1])

        if not by_type:
            return result

        # The type whose valid encodings are the longest per value has the
        # most structure to tamper with.
        type_name = knobs.choice(sorted(by_type))
        faults = random.Random(mix(seed, 'faults'))
        population = {}
        result.stats['climbs'] += 1
        # (Climbs that maximise tracemalloc peaks instead of steps were
        # tried and withdrawn: the peak of a decode depends on what the
        # worker process did before - lazily filled caches of the library
        # and the interpreter - so the search was not repeatable.)
        by_memory = False

        if by_memory:
            result.stats['climbs-by-memory'] += 1

        def evaluate(data):
            budget = world.decode_budget(len(data))
            peak = None

            if by_memory:
                tracemalloc.start()
                tracemalloc.reset_peak()
                base = tracemalloc.get_traced_memory()[0]

            try:
                outcome, ticks = steps.call(
                    lambda: receiver.decode(type_name, data), budget)
            except MemoryError:
                outcome, ticks = ['memory-error'], 0

            if by_memory:
                peak = tracemalloc.get_traced_memory()[1] - base
                tracemalloc.stop()

            result.ticks += ticks
            result.evaluations += 1
            result.stats['climb-decodes'] += 1
            detail = {'type': type_name, 'delivered': data.hex()[:600],
                      'length': len(data), 'found_by': 'cost-guided search'}
            case = {'spec': spec, 'codec': codec, 'seed': seed,
                    'memory': False,
                    'text': text if spec.get('corpus') else None,
                    'messages': [[type_name, None,
                                  {'kind': 'raw', 'data': data.hex()}]]}

            if outcome[0] == 'hang':
                detail.update({'budget': budget, 'site': outcome[1]})
                result.violation('hang', {'codec': codec, 'site': outcome[1]},
                                 detail, case)
            elif outcome[0] == 'memory-error' or (
                    outcome[0] == 'err'
                    and outcome[1] == 'builtins.MemoryError'):
                result.violation('memory', {'codec': codec}, detail, case)
            elif peak is not None:
                bound = MEMORY_BASE + MEMORY_PER_BYTE * len(data)

                if peak > bound:
                    detail.update({'peak': peak, 'bound': bound})
                    result.violation('memory', {'codec': codec}, detail,
                                     dict(case, memory=True))

                result.key(codec, type_name, data.hex())

                # Fraction of the memory bound used.
                return peak / float(bound)

            result.key(codec, type_name, data.hex())

            # Fraction of the liveness budget used.
            return ticks / float(budget)

        for data in by_type[type_name][:CLIMB_KEEP]:
            population[data] = evaluate(data)

        best_start = max(population.values())

        stale = 0
        best_so_far = best_start

        for generation in range(CLIMB_GENERATIONS):
            # A climb that has made real progress gets more patience (and
            # more simulated time) than one on a plainly linear decoder.
            promising = best_so_far > 4 * best_start
            patience = CLIMB_PATIENCE * (4 if promising else 1)
            tick_cap = RUN_TICKS * (12 if promising else 3)

            if result.violations or result.ticks > tick_cap \
                    or stale > patience:
                break

            parents = sorted(population, key=lambda d: (-population[d], d))
            parents = parents[:CLIMB_KEEP]

            for parent in parents:
                for _ in range(CLIMB_CHILDREN):
                    fault = wire.draw_fault(faults, codec, 1.0)
                    other = faults.choice(parents)
                    child = wire.mutate(parent, fault, other)

                    if not child or len(child) > CLIMB_MAX_LEN \
                            or child in population:
                        continue

                    population[child] = evaluate(child)

                    if result.violations:
                        break

                if result.violations:
                    break

            keep = sorted(population, key=lambda d: (-population[d], d))
            population = {d: population[d] for d in keep[:CLIMB_KEEP * 3]}
            best = population[keep[0]]

            if best > best_so_far * 1.02:
                best_so_far = best
                stale = 0
            else:
                stale += 1

        best = max(population.values())
        result.stats['max-climb-budget-used-percent'] = int(100 * best)
        result.stats['max-climb-gain-percent'] = int(
            100 * best / max(best_start, 1e-9))
        result.log.append(['climb', codec, type_name,
                           int(10000 * best_start), int(10000 * best),
                           len(population)])

        return result

    def gen_case(self, run_seed):
        knobs = random.Random(mix(run_seed, 'knobs'))
        codec = knobs.choice(CODECS)
        numeric_enums = knobs.random() < 0.15
        features = None

        if knobs.random() < 0.4:
            # Bias towards the constructs where decoders skip unknown data.
            rng = random.Random(mix(run_seed, 'features'))
            features = sorted(set(
                [f for f in specgen.ALL_FEATURES if rng.random() < 0.5]
                + ['ext', 'ext_groups', 'choice', 'seqof', 'seq', 'int',
                   'optional', 'refs']))

        spec, text, parsed = world.gen_world(run_seed, codec,
                                             features=features)
        corpus_text = None

        if knobs.random() < 0.1:
            found = world.corpus_world(knobs)

            if found is not None:
                spec, corpus_text, parsed = found

        messages = []

        if parsed is not None:
            rng = random.Random(mix(run_seed, 'values'))
            faults = random.Random(mix(run_seed, 'faults'))
            p_fault = knobs.choice([0.5, 0.7, 0.7, 0.9])
            drawn = world.draw_messages(parsed, rng,
                                        knobs.choice([10, 30, 30, 50]), codec,
                                        numeric_enums=numeric_enums,
                                        big=knobs.random() < 0.1)
            messages = [[name, ser(value),
                         wire.draw_fault(faults, codec, p_fault)]
                        for name, value in drawn]

        return {'spec': spec, 'codec': codec, 'messages': messages,
                'numeric_enums': numeric_enums, 'text': corpus_text,
                'memory': knobs.random() < 0.12, 'seed': run_seed}

    def execute(self, case):
        set_rlimit()
        result = Result()
        codec = case['codec']
        text = case.get('text') or specgen.render(case['spec'])
        numeric_enums = case.get('numeric_enums', False)
        receiver = world.compile_text(text, codec, numeric_enums)
        reference = world.compile_text(text, codec, numeric_enums)
        result.log.append(['compile', codec, receiver[0]])

        if numeric_enums:
            result.stats['runs-numeric-enums'] += 1

        if receiver[0] != 'ok' or reference[0] != 'ok':
            result.stats['rejected-program'] += 1

            return result

        receiver = receiver[1]
        reference = reference[1]
        pristine, pristine_entries = graph.fingerprint(reference)
        previous = b''
        history = []
        memory = case.get('memory', False)
        faulted_before = False

        for index, (type_name, jvalue, fault) in enumerate(case['messages']):
            if result.ticks > RUN_TICKS:
                result.stats['run-tick-cap-stops'] += 1
                break

            history.append([type_name, jvalue, fault])

            if fault['kind'] == 'raw':
                encoded = b''
            else:
                value = deser(jvalue)
                outcome, ticks = steps.call(
                    lambda: reference.encode(type_name, value),
                    world.encode_budget())
                result.ticks += ticks

                if outcome[0] != 'ok':
                    result.stats['skipped-encode'] += 1
                    result.log.append(['skip-encode', index])
                    continue

                encoded = outcome[1]

            data = wire.mutate(encoded, fault, previous)

            if fault['kind'] not in ('raw', 'none'):
                previous = encoded

            kind = fault['kind']
            faulted = kind != 'none' and data != encoded
            budget = world.decode_budget(len(data))

            if memory:
                tracemalloc.start()
                tracemalloc.reset_peak()
                base = tracemalloc.get_traced_memory()[0]

            try:
                outcome, ticks = steps.call(
                    lambda: receiver.decode(type_name, data), budget)
            except MemoryError:
                outcome, ticks = ['memory-error'], 0

            if memory:
                peak = tracemalloc.get_traced_memory()[1] - base
                tracemalloc.stop()
            else:
                peak = None

            result.ticks += ticks
            result.evaluations += 1
            result.stats['fault-' + kind] += 1
            result.stats['outcome-{}-{}'.format(codec, outcome_class(outcome))] += 1

            if len(data):
                ratio = ticks // len(data)
                result.stats['max-ticks-per-byte'] = max(
                    result.stats['max-ticks-per-byte'], ratio)

            result.log.append(['decode', index, kind, len(data),
                               canon_outcome(outcome)[:80], ticks])
            detail = {'type': type_name, 'fault': fault,
                      'delivered': data.hex()[:600], 'length': len(data),
                      'index': index}
            raw_message = [type_name, jvalue,
                           {'kind': 'raw', 'data': data.hex()}]

            if outcome[0] == 'hang':
                detail.update({'budget': budget, 'site': outcome[1]})
                result.violation(
                    'hang', {'codec': codec, 'site': outcome[1]}, detail,
                    dict(case, messages=[raw_message], memory=False))
            elif outcome[0] == 'memory-error' or (
                    outcome[0] == 'err'
                    and outcome[1] == 'builtins.MemoryError'):
                result.violation(
                    'memory', {'codec': codec}, detail,
                    dict(case, messages=[raw_message], memory=False))
            elif peak is not None:
                bound = MEMORY_BASE + MEMORY_PER_BYTE * len(data)
                result.stats['memory-sampled-decodes'] += 1

                if len(data):
                    result.stats['max-peak-bytes-per-input-byte'] = max(
                        result.stats['max-peak-bytes-per-input-byte'],
                        peak // len(data))

                if peak > bound:
                    detail.update({'peak': peak, 'bound': bound})
                    result.violation(
                        'memory', {'codec': codec}, detail,
                        dict(case, messages=[raw_message], memory=True))

            if faulted:
                faulted_before = True
                result.key(codec, type_name, data.hex())
            elif outcome[0] != 'hang':
                # Un-faulted traffic: must decode exactly as on a
                # specification that never saw a faulted input.
                expected, ticks = steps.call(
                    lambda: reference.decode(type_name, data), budget)
                result.ticks += ticks

                if faulted_before:
                    result.stats['residue-checks'] += 1

                if canon_outcome(expected) != canon_outcome(outcome):
                    detail.update({'got': canon_outcome(outcome)[:300],
                                   'expected': canon_outcome(expected)[:300]})
                    result.violation(
                        'state', {'codec': codec, 'where': 'later-decode'},
                        detail, dict(case, messages=copy.deepcopy(history),
                                     memory=False))

            if len(result.samples) < 1 and faulted and index > 2:
                result.samples.append({
                    'codec': codec, 'type': type_name, 'fault': fault,
                    'valid': encoded.hex()[:80],
                    'delivered': data.hex()[:80],
                    'outcome': canon_outcome(outcome)[:160],
                    'ticks': ticks})

        # The compiled type graph is meant to be read-only.  If the
        # receiver's is no longer what it was after compile, deliver the
        # whole traffic several more times (state that only bites after
        # accumulating), then compare the un-faulted messages again.
        after, after_entries = graph.fingerprint(receiver)

        if after != pristine and result.ticks <= RUN_TICKS:
            result.stats['probe-graph-state-changed'] += 1
            deliveries = []
            previous = b''

            for type_name, jvalue, fault in history:
                if fault['kind'] == 'raw':
                    deliveries.append((type_name, bytes.fromhex(
                        fault['data']), True))
                    continue

                outcome, ticks = steps.call(
                    lambda: reference.encode(type_name, deser(jvalue)),
                    world.encode_budget())

                if outcome[0] != 'ok':
                    continue

                data = wire.mutate(outcome[1], fault, previous)
                deliveries.append((type_name, data,
                                   fault['kind'] != 'none'
                                   and data != outcome[1]))

                if fault['kind'] != 'none':
                    previous = outcome[1]

            mismatch = False

            for round_index in range(AMPLIFY_ROUNDS):
                if result.ticks > 4 * RUN_TICKS or mismatch:
                    break

                for type_name, data, faulted in deliveries:
                    outcome, ticks = steps.call(
                        lambda: receiver.decode(type_name, data),
                        world.decode_budget(len(data)))
                    result.ticks += ticks

                    if faulted or outcome[0] == 'hang':
                        continue

                    expected, ticks = steps.call(
                        lambda: reference.decode(type_name, data),
                        world.decode_budget(len(data)))

                    if canon_outcome(expected) != canon_outcome(outcome):
                        result.violation(
                            'state',
                            {'codec': codec, 'where': 'amplified-replay'},
                            {'type': type_name, 'replay_round': round_index,
                             'graph_changes': graph.difference(
                                 after_entries, pristine_entries),
                             'got': canon_outcome(outcome)[:300],
                             'expected': canon_outcome(expected)[:300]},
                            dict(case, messages=copy.deepcopy(history),
                                 memory=False))
                        mismatch = True
                        break

                if round_index >= 2:
                    now = graph.fingerprint(receiver)[0]

                    if now == after:
                        break

                    after = now

        # End of run: the receiver must behave like the reference.
        outcome = world.parse(text)

        if outcome[0] == 'ok' and result.ticks <= 3 * RUN_TICKS:
            probes = ProbeSet(outcome[1], case.get('seed', 0), codec,
                              numeric_enums, k=1, max_types=5)
            got = probes.apply(receiver)
            expected = probes.apply(reference)
            difference = first_difference(got, expected)
            result.stats['end-digests'] += 1
            result.log.append(['digest', len(got)])

            if difference is not None:
                result.violation(
                    'state', {'codec': codec, 'where': 'end-digest'},
                    {'index': difference[0], 'got': str(difference[1])[:300],
                     'expected': str(difference[2])[:300]},
                    dict(case, messages=copy.deepcopy(history),
                         memory=False))

        return result

    def same_violation(self, a, b):
        if a['class'] != b['class']:
            return False

        sa, sb = a.get('signature') or {}, b.get('signature') or {}

        return sa.get('codec') == sb.get('codec')

    def shrink(self, case, violation):
        messages = case['messages']

        if len(messages) > 1:
            for reduced in shrink.drop_each(messages, min_len=1):
                yield dict(case, messages=reduced)

        for index, message in enumerate(messages):
            if message[2]['kind'] not in ('none', 'raw'):
                reduced = copy.deepcopy(messages)
                reduced[index][2] = {'kind': 'none'}

                yield dict(case, messages=reduced)

        # Shorten raw datagrams.
        for index, message in enumerate(messages):
            if message[2]['kind'] == 'raw':
                data = bytes.fromhex(message[2]['data'])

                for cut in (len(data) // 2, len(data) - 1):
                    if 0 < cut < len(data):
                        reduced = copy.deepcopy(messages)
                        reduced[index][2] = {'kind': 'raw',
                                             'data': data[:cut].hex()}

                        yield dict(case, messages=reduced)

        keep = [message[0] for message in messages]

        if case.get('text'):
            return      # a corpus module: kept as it is

        for spec in shrink.shrink_spec(case['spec'], keep=keep):
            yield dict(case, spec=spec)

    def narrow_wall_hang(self, case, hangs):
        """Find one message whose decode alone does not return (each probe
        runs in its own subprocess)."""

        for message in case['messages']:
            candidate = dict(case, messages=[message], memory=False)

            if hangs(candidate):
                return candidate

        return case

    def finish(self, tier, agg):
        fired = {k[len('fault-'):]: v for k, v in agg.stats.items()
                 if k.startswith('fault-')}

        return {'fault_kinds_fired': fired}


def outcome_class(outcome):
    if outcome[0] == 'ok':
        return 'value'

    if outcome[0] == 'err':
        name = outcome[1].split('.')[-1]

        if 'asn1tools' in outcome[1] or name.endswith('DecodeError'):
            return 'DecodeError'

        return name

    return outcome[0]


ENGINE = C08()
