"""C16 - a truncated encoding is reported as a decode error, never a value.

Simulation: sender node encodes a message with the real encoder; the
connection closes (sender crash) after k bytes, for EVERY k in 0..len-1 of
every message (fault enumeration of the crash-point space per message); the
receiver decodes what arrived with the real decoder under the step clock.
"""

import copy
import random
import time

from vsim import steps, world, specgen, shrink
from vsim.rng import mix
from vsim.runner import Engine, Result
from vsim.ser import ser, deser, canon

CODECS = ['ber', 'der', 'per', 'uper', 'oer']
# Cap on simulated time per run: many short runs beat a few long ones.
RUN_TICKS = 6000000
RUN_WALL_S = 60


def cut_points(length, rng):
    if length <= 1024:
        return list(range(length))

    return long_cut_points(length, rng)


def long_cut_points(length, rng):
    points = set(range(0, 24))
    points |= set(range(length - 12, length))

    for boundary in (127, 128, 255, 256, 16383, 16384, 32768, 49152, 65535,
                     65536):
        for delta in range(-3, 6):
            k = boundary + delta

            if 0 <= k < length:
                points.add(k)

    boundary = sorted(points)
    seeded = []

    for _ in range(128):
        k = rng.randrange(length)

        if k not in points:
            points.add(k)
            seeded.append(k)

    # Boundary cuts first: the run tick cap may stop a long message early.
    return boundary + seeded


class C16(Engine):
    property_id = 'C16'
    level = 'fault_enumeration'
    rule = ('one evaluation = one decode of a strict byte prefix enc[:k] of a '
            'valid encoding whose un-cut form decodes and re-encodes to the same '
            'octets; every k in '
            '0..len-1 is executed for messages <= 1024 bytes (exhaustive per '
            'message), boundary +-3 and 128 seeded k for longer ones; '
            'distinct_nontrivial counts distinct (codec, encoded message) '
            'pairs weighted by their number of cut points; messages, types '
            'and modules are seeded samples (swarm generator)')
    assumptions = [
        'the space of modules and values is sampled, only cut points are '
        'enumerated',
        'a message whose own un-cut encoding fails to encode or decode is '
        'skipped (C01 matter), counted as skipped-*',
        'step clock: sys.settrace line events inside /repo/asn1tools',
    ]
    real_stub = {
        'real': ['asn1tools parser, compilers, encoders, decoders '
                 '(/repo working tree)'],
        'stub': ['byte channel that closes after k bytes (vsim/wire.py)'],
    }
    tiers = {
        'quick': dict(runs=1600, wall_cap=150, chunk=4, minimise_s=40),
        'thorough': dict(runs=40000, wall_cap=3300, chunk=8, minimise_s=120),
    }

    def gen_case(self, run_seed):
        knobs = random.Random(mix(run_seed, 'knobs'))
        codec = knobs.choice(CODECS)
        big = knobs.random() < 0.12
        numeric_enums = knobs.random() < 0.15
        spec, text, parsed = world.gen_world(run_seed, codec)
        corpus_text = None

        if knobs.random() < 0.12:
            found = world.corpus_world(knobs)

            if found is not None:
                spec, corpus_text, parsed = found

        messages = []

        if parsed is not None:
            rng = random.Random(mix(run_seed, 'values'))
            drawn = world.draw_messages(parsed, rng,
                                        knobs.choice([3, 6, 10]), codec,
                                        numeric_enums=numeric_enums,
                                        big=big)
            messages = [[name, ser(value)] for name, value in drawn]

        return {'spec': spec, 'codec': codec, 'messages': messages,
                'numeric_enums': numeric_enums, 'text': corpus_text,
                'cuts': None, 'seed': run_seed}

    def execute(self, case):
        import asn1tools

        result = Result()
        codec = case['codec']
        text = case.get('text') or specgen.render(case['spec'])
        outcome = world.compile_text(text, codec,
                                     case.get('numeric_enums', False))
        result.log.append(['compile', codec, outcome[0]])

        if case.get('numeric_enums'):
            result.stats['runs-numeric-enums'] += 1

        if outcome[0] != 'ok':
            result.stats['rejected-program'] += 1

            return result

        spec = outcome[1]
        rng = random.Random(mix(case.get('seed', 0), 'cuts'))
        started = time.time()

        for index, (type_name, jvalue) in enumerate(case['messages']):
            value = deser(jvalue)
            outcome, ticks = steps.call(
                lambda: spec.encode(type_name, value), world.encode_budget())
            result.ticks += ticks

            if outcome[0] != 'ok':
                result.stats['skipped-encode'] += 1
                result.log.append(['skip-encode', index])
                continue

            encoded = outcome[1]
            outcome, ticks = steps.call(
                lambda: spec.decode(type_name, encoded),
                world.decode_budget(len(encoded)))
            result.ticks += ticks

            if outcome[0] != 'ok':
                result.stats['skipped-roundtrip'] += 1
                result.log.append(['skip-roundtrip', index])
                continue

            # "Valid encoding" means the encoding of a value with no surplus
            # octets: re-encoding what it decodes to must reproduce it.
            # (The UPER encoder emits a whole octet for a BIT STRING value
            # whose unused bits are set - a C05 matter; such an output has a
            # strict prefix that is the real encoding.)
            decoded = outcome[1]
            outcome, ticks = steps.call(
                lambda: spec.encode(type_name, decoded),
                world.encode_budget())
            result.ticks += ticks

            if outcome[0] != 'ok' or outcome[1] != encoded:
                result.stats['skipped-not-reencodable'] += 1
                result.log.append(['skip-reencode', index])
                continue

            if case.get('cuts') is not None:
                cuts = [k for k in case['cuts'][index] if k < len(encoded)]
            else:
                cuts = cut_points(len(encoded), rng)

            result.stats['messages'] += 1
            result.stats['messages-' + codec] += 1

            if len(encoded) > 1024:
                result.stats['long-messages'] += 1

            classes = {}
            done = 0

            for k in cuts:
                # Simulated-time cap of the run, plus a wall-clock cap (C
                # level big-integer work is invisible to the step clock).
                if result.ticks > RUN_TICKS \
                        or time.time() - started > RUN_WALL_S:
                    break

                done += 1
                prefix = encoded[:k]

                def fn():
                    try:
                        return ['value', spec.decode(type_name, prefix)]
                    except asn1tools.DecodeError as e:
                        return ['decode-error', type(e).__name__]

                outcome, ticks = steps.call(
                    fn, world.decode_budget(len(prefix)))
                result.ticks += ticks
                result.evaluations += 1
                result.stats['cuts-' + codec] += 1
                violation = None

                if outcome[0] == 'ok' and outcome[1][0] == 'decode-error':
                    classes[outcome[1][1]] = classes.get(outcome[1][1], 0) + 1
                elif outcome[0] == 'ok':
                    violation = ('value', {'codec': codec},
                                 {'decoded': canon(outcome[1][1])[:300]})
                elif outcome[0] == 'hang':
                    violation = ('hang', {'codec': codec}, {})
                else:
                    violation = ('foreign:' + outcome[1].split('.')[-1],
                                 {'codec': codec,
                                  'exception': outcome[1],
                                  'site': outcome[3]},
                                 {'text': outcome[2]})

                if violation is not None:
                    cls, signature, detail = violation
                    detail.update({'type': type_name, 'value': jvalue,
                                   'encoded': encoded.hex()[:400], 'cut': k,
                                   'length': len(encoded)})
                    small = {'spec': case['spec'], 'codec': codec,
                             'messages': [[type_name, jvalue]],
                             'cuts': [[k]], 'seed': case.get('seed', 0)}
                    result.violation(cls, signature, detail, small)
                    result.log.append(['violation', index, k, cls])

            for name, count in classes.items():
                result.stats['error-' + name] += count

            if done == len(cuts):
                result.stats['messages-all-cuts-executed'] += 1
            else:
                result.stats['messages-stopped-by-run-tick-cap'] += 1

            result.key(codec, encoded.hex(), weight=done)
            result.log.append(['message', index, len(encoded), len(cuts),
                               sorted(classes.items())])

            if len(result.samples) < 1 and len(encoded) > 2:
                result.samples.append({
                    'codec': codec, 'type': type_name,
                    'encoded': encoded.hex()[:120],
                    'cuts': 'all 0..{}'.format(len(encoded) - 1)
                    if done == len(encoded) else done,
                    'error_classes': classes})

        return result

    def same_violation(self, a, b):
        if a['class'] != b['class']:
            return False

        sa, sb = a.get('signature') or {}, b.get('signature') or {}

        return sa.get('site') == sb.get('site') \
            and sa.get('codec') == sb.get('codec')

    def shrink(self, case, violation):
        if case.get('text'):
            return      # a corpus module: kept as it is

        for spec in shrink.shrink_spec(case['spec'],
                                       keep=[case['messages'][0][0]]):
            candidate = copy.deepcopy(case)
            candidate['spec'] = spec

            yield candidate

    def finish(self, tier, agg):
        return {'exhaustive': False,
                'exhaustive_note': 'cut points are enumerated completely for '
                                   'every message <= 1024 bytes; messages are '
                                   'sampled',
                'fault_kinds_fired': {
                    'cut@k': agg.evaluations}}


ENGINE = C16()
