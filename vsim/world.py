"""Helpers shared by the engines: compiling the module of a case, drawing
messages, decode budgets."""

import random

from . import steps
from .rng import mix
from . import specgen
from .valgen import ValGen, Unsupported

COMPILE_BUDGET = 8000000
TEXT_CODECS = ('jer', 'xer', 'gser')


def decode_budget(length):
    """Bounded liveness in simulated time (DESIGN C08): ticks allowed for a
    decode of `length` input bytes."""

    return 20000 + 2000 * length


def encode_budget():
    return 3000000


def parse(text):
    import asn1tools

    outcome, _ = steps.call(lambda: asn1tools.parse_string(text),
                            COMPILE_BUDGET * 4)

    return outcome


def compile_text(text, codec, numeric_enums=False):
    import asn1tools

    outcome, ticks = steps.call(
        lambda: asn1tools.compile_string(text, codec,
                                         numeric_enums=numeric_enums),
        COMPILE_BUDGET)

    return outcome


def draw_messages(parsed, rng, count, codec, numeric_enums=False, big=False,
                  max_depth=3):
    """Returns [(type_name, value)], values drawn by the independent
    interpreter of the fresh parse."""

    gen = ValGen(parsed, rng, numeric_enums=numeric_enums, big=big,
                 max_depth=max_depth,
                 absent_additions=codec not in TEXT_CODECS)
    types = gen.top_types()
    messages = []

    if not types:
        return messages

    for _ in range(count * 3):
        if len(messages) >= count:
            break

        module_name, type_name = rng.choice(types)

        try:
            messages.append((type_name, gen.value(module_name, type_name)))
        except Unsupported:
            continue

    return messages


def gen_world(run_seed, codec, knobs=None, features=None):
    """Seeded module + its fresh parse.  Returns (spec, text, parsed) or
    None if the generated module does not parse (counted by callers)."""

    rng = random.Random(mix(run_seed, 'spec'))
    spec = specgen.gen_spec(rng, codec, features=features, knobs=knobs)
    text = specgen.render(spec)
    outcome = parse(text)

    if outcome[0] != 'ok':
        return spec, text, None

    return spec, text, outcome[1]


def corpus_world(rng, patterns=('hot*.asn', 'wire*.asn')):
    """A hand-written module of /verif/corpus for the wire engines (shapes
    the random generator rarely hits).  Returns (spec, text, parsed); spec
    is a placeholder, the text travels in the case."""

    import glob
    import os

    from . import VERIF

    paths = sorted(path for pattern in patterns
                   for path in glob.glob(os.path.join(VERIF, 'corpus',
                                                      pattern)))

    if not paths:
        return None

    with open(rng.choice(paths)) as fin:
        text = fin.read()

    outcome = parse(text)

    return ({'modules': [], 'corpus': True}, text,
            outcome[1] if outcome[0] == 'ok' else None)
