"""Common driver of all checks: plan -> parallel seeded runs -> violations ->
minimise -> replay in a fresh interpreter -> known-finding match -> evidence.

Exit status: 0 property held on everything explored (known findings are
printed as KNOWN-FINDING lines), 1 at least one VIOLATION line, 2 harness
failure (never a VIOLATION, never 0).
"""

import argparse
import collections
import concurrent.futures
import faulthandler
import hashlib
import json
import multiprocessing
import os
import subprocess
import sys
import time
import traceback

from . import VERIF
from .rng import mix

KNOWN_FINDINGS = os.path.join(VERIF, 'known_findings.json')
REPLAY_DIR = os.environ.get('VSIM_REPLAY_DIR') or os.path.join(VERIF, 'replays')
EVIDENCE_DIR = os.environ.get('VSIM_EVIDENCE_DIR') or os.path.join(VERIF, 'evidence')


class Engine(object):
    """Interface implemented by checks/cXX.py."""

    property_id = None
    level = 'exploration'
    rule = ''
    assumptions = []
    real_stub = {}
    # tier -> dict(runs=..., wall_cap=..., chunk=...)
    tiers = {}

    def plan(self, tier, seed, runs):
        """List of JSON-able work items."""

        return [{'kind': 'random', 'seed': mix(seed, self.property_id, i)}
                for i in range(runs)]

    def run_item(self, item):
        case = self.gen_case(item['seed'])

        return self.execute(case)

    def gen_case(self, run_seed):
        raise NotImplementedError

    def execute(self, case):
        """Returns Result."""

        raise NotImplementedError

    def shrink(self, case, violation):
        """Yields smaller candidate cases."""

        return iter(())

    def same_violation(self, a, b):
        return a['class'] == b['class']

    def finish(self, tier, agg):
        """Hook: extra coverage keys computed from the aggregate."""

        return {}


class Result(object):

    def __init__(self):
        self.stats = collections.Counter()
        self.violations = []
        self.distinct = {}     # key -> weight (number of distinct cases)
        self.ticks = 0
        self.evaluations = 0
        self.samples = []
        self.log = []      # event log for determinism self-test

    def violation(self, cls, signature, detail, case):
        self.violations.append({'class': cls,
                                'signature': signature,
                                'detail': detail,
                                'case': case})

    def key(self, *parts, weight=1):
        key = mix(*parts)
        self.distinct[key] = max(self.distinct.get(key, 0), weight)

    def merge_distinct(self, pairs):
        for key, weight in pairs:
            self.distinct[key] = max(self.distinct.get(key, 0), weight)

    def to_dict(self):
        return {'stats': dict(self.stats),
                'violations': self.violations,
                'distinct': list(self.distinct.items()),
                'ticks': self.ticks,
                'evaluations': self.evaluations,
                'samples': self.samples[:2],
                'log_hash': log_hash(self.log)}


def merge_stats(into, stats):
    """Counters add up, except keys starting with 'max-' (maxima)."""

    for key, value in stats.items():
        if key.startswith('max-'):
            into[key] = max(into.get(key, 0), value)
        else:
            into[key] += value


def log_hash(log):
    h = hashlib.sha256()

    for entry in log:
        h.update(json.dumps(entry, sort_keys=True, default=str).encode())
        h.update(b'\n')

    return h.hexdigest()


_ENGINE = None
_STATUS_DIR = None


def _init_worker(module_name, status_dir=None):
    global _ENGINE, _STATUS_DIR

    import importlib

    sys.setrecursionlimit(5000)
    _ENGINE = importlib.import_module(module_name).ENGINE
    _STATUS_DIR = status_dir


def _work(chunk):
    faulthandler.enable()
    engine = _ENGINE
    out = Result()
    hashes = []

    status = None

    if _STATUS_DIR:
        status = os.path.join(_STATUS_DIR, '{}.json'.format(os.getpid()))

    for item in chunk:
        if status:
            # What this worker is busy with: if it never comes back (a loop
            # inside one C call is invisible to the step clock) the driver
            # knows which item to blame.
            try:
                with open(status, 'w') as fout:
                    json.dump({'item': item, 'since': time.time()}, fout)
            except OSError:
                status = None   # (somebody cleaned /tmp: no blame records)

        try:
            result = engine.run_item(item)
        except BaseException:
            return {'harness': 'item {}: {}'.format(
                json.dumps(item)[:200], traceback.format_exc())}
        finally:
            if status:
                try:
                    os.unlink(status)
                except OSError:
                    pass

        merge_stats(out.stats, result.stats)
        out.violations.extend(result.violations[:3])
        out.merge_distinct(result.distinct.items())
        out.ticks += result.ticks
        out.evaluations += result.evaluations

        if len(out.samples) < 2:
            out.samples.extend(result.samples[:1])

        hashes.append(log_hash(result.log))

    data = out.to_dict()
    data['log_hashes'] = hashes

    return data


def load_known_findings(property_id):
    try:
        with open(KNOWN_FINDINGS) as fin:
            findings = json.load(fin)
    except FileNotFoundError:
        return []

    return [f for f in findings['findings']
            if f['property'] == property_id]


def match_finding(violation, findings):
    for finding in findings:
        if finding.get('status') != 'open':
            continue

        if finding['class'] != violation['class']:
            continue

        signature = violation.get('signature') or {}

        if all(signature.get(k) == v
               for k, v in finding['signature'].items()):
            return finding

    return None


def minimise(engine, violation, deadline):
    """Greedy delta debugging driven by engine.shrink()."""

    case = violation['case']
    current = violation
    steps = 0
    progress = True

    while progress and time.time() < deadline:
        progress = False

        for candidate in engine.shrink(case, current):
            if time.time() >= deadline:
                break

            steps += 1

            try:
                result = engine.execute(candidate)
            except Exception:
                continue

            found = [v for v in result.violations
                     if engine.same_violation(v, violation)]

            if found:
                case = found[0]['case']
                current = found[0]
                progress = True
                break

    current = dict(current)
    current['case'] = case
    current['minimise_steps'] = steps

    return current


def write_replay(engine, violation, tag):
    os.makedirs(REPLAY_DIR, exist_ok=True)
    body = {'property': engine.property_id,
            'class': violation['class'],
            'signature': violation.get('signature'),
            'detail': violation.get('detail'),
            'case': violation['case']}
    text = json.dumps(body, indent=1, sort_keys=True)
    name = '{}-{}-{}.json'.format(
        engine.property_id, violation['class'].replace(':', '_'),
        hashlib.sha256(text.encode()).hexdigest()[:10])
    path = os.path.join(REPLAY_DIR, name)

    with open(path, 'w') as fout:
        fout.write(text + '\n')

    return path


def replay_fresh(engine, path):
    """Replays in a fresh interpreter; returns True if reproduced."""

    check = os.path.join(VERIF, 'check')
    proc = subprocess.run([sys.executable, check, engine.property_id,
                           '--replay', path],
                          stdout=subprocess.PIPE, stderr=subprocess.STDOUT,
                          timeout=600)

    return proc.returncode == 1 and b'REPRODUCED' in proc.stdout


def _run_item_alone(engine, item, timeout):
    """Runs one work item in a fresh interpreter.  Returns 'timeout',
    'finished' or 'failed'."""

    import tempfile

    with tempfile.NamedTemporaryFile('w', suffix='.json',
                                     delete=False) as fout:
        json.dump(item, fout)
        item_path = fout.name

    check = os.path.join(VERIF, 'check')

    try:
        proc = subprocess.Popen([sys.executable, check, engine.property_id,
                                 '--run-item', item_path],
                                stdout=subprocess.DEVNULL,
                                stderr=subprocess.DEVNULL)

        try:
            proc.wait(timeout)
        except subprocess.TimeoutExpired:
            proc.kill()
            proc.wait()

            return 'timeout'

        return 'finished' if proc.returncode in (0, 1) else 'failed'
    finally:
        os.unlink(item_path)


def confirm_wall_hang(engine, item, timeout):
    """A worker did not come back from `item`.  If the item, run alone in a
    fresh interpreter, does not finish within `timeout` seconds either, that
    is a hang the step clock cannot see (a loop inside one C call): a
    violation of class hang with signature kind=wall-clock.  Engines may
    narrow the case down (engine.narrow_wall_hang)."""

    if _run_item_alone(engine, item, timeout) != 'timeout':
        return None

    case = None

    if item.get('kind') == 'random':
        try:
            case = engine.gen_case(item['seed'])
        except Exception:
            case = None

    detail = {'item': item, 'wall_timeout_s': timeout,
              'note': 'the operation did not return; the step clock did '
                      'not fire, so the loop is inside a single C call'}

    if case is not None and hasattr(engine, 'narrow_wall_hang'):
        def hangs(candidate):
            return _run_item_alone(
                engine, {'kind': 'case', 'case': candidate},
                max(20, timeout // 4)) == 'timeout'

        try:
            case = engine.narrow_wall_hang(case, hangs)
        except Exception:
            pass

    return {'class': 'hang',
            'signature': {'kind': 'wall-clock'},
            'detail': detail,
            'case': case if case is not None else {'item': item}}


def do_replay(engine, path):
    with open(path) as fin:
        body = json.load(fin)

    if (body.get('signature') or {}).get('kind') == 'wall-clock' \
            and not os.environ.get('VSIM_INNER_REPLAY'):
        # Replaying a hang in this process would hang it: do it in a child.
        item = {'kind': 'case', 'case': body['case']}

        if 'item' in body['case'] and len(body['case']) == 1:
            item = body['case']['item']

        outcome = _run_item_alone(engine, item, 90)

        if outcome == 'timeout':
            print('REPRODUCED property={} class=hang (no return within 90 s '
                  'wall clock)'.format(engine.property_id))
            print('VIOLATION property={} replay={}'.format(
                engine.property_id, path))

            return 1

        print('NOT-REPRODUCED property={} ({})'.format(engine.property_id,
                                                       outcome))

        return 0

    result = engine.execute(body['case'])
    wanted = {'class': body['class'], 'signature': body.get('signature')}
    found = [v for v in result.violations
             if engine.same_violation(v, wanted)]

    if found:
        print('REPRODUCED property={} class={} detail={}'.format(
            engine.property_id, found[0]['class'],
            json.dumps(found[0]['detail'])[:2000]))
        findings = load_known_findings(engine.property_id)
        finding = match_finding(found[0], findings)

        if finding is not None:
            print('KNOWN-FINDING: property={} {}'.format(
                engine.property_id, finding['what']))
        else:
            print('VIOLATION property={} replay={}'.format(
                engine.property_id, path))

        return 1

    print('NOT-REPRODUCED property={} (other violations: {})'.format(
        engine.property_id, [v['class'] for v in result.violations]))

    return 0


def main(engine, argv=None):
    global _ENGINE

    parser = argparse.ArgumentParser()
    parser.add_argument('--tier', default=os.environ.get('VERIF_TIER',
                                                         'quick'))
    parser.add_argument('--replay')
    parser.add_argument('--run-item',
                        help='run one work item (JSON file) and exit')
    parser.add_argument('--runs', type=int)
    parser.add_argument('--workers', type=int,
                        default=int(os.environ.get('VERIF_WORKERS', '0')))
    parser.add_argument('--seed', type=int,
                        default=int(os.environ.get('VERIF_SEED', '1')))
    parser.add_argument('--no-evidence', action='store_true')
    parser.add_argument('--log-hashes',
                        help='write per-run event-log hashes to this file')
    args = parser.parse_args(argv)

    if args.replay:
        return do_replay(engine, args.replay)

    if args.run_item:
        with open(args.run_item) as fin:
            item = json.load(fin)

        if item.get('kind') == 'case':
            result = engine.execute(item['case'])
        else:
            result = engine.run_item(item)

        return 1 if result.violations else 0

    tier = args.tier if args.tier in ('quick', 'thorough') else 'quick'
    conf = dict(engine.tiers[tier])
    runs = args.runs if args.runs is not None else conf['runs']
    wall_cap = float(os.environ.get('VERIF_WALL_CAP', conf['wall_cap']))
    workers = args.workers or min(16, os.cpu_count() or 1)
    start = time.time()
    print('VERIF_SEED={} property={} tier={} runs={} workers={}'.format(
        args.seed, engine.property_id, tier, runs, workers), flush=True)

    _ENGINE = engine
    items = engine.plan(tier, args.seed, runs)
    chunk_size = conf.get('chunk', 4)
    chunks = [items[i:i + chunk_size]
              for i in range(0, len(items), chunk_size)]
    agg = Result()
    log_hashes = []
    harness = []
    done_items = 0
    skipped = 0
    # Workers are fresh interpreters (spawn), not forks of this
    # process: measured here, forked workers spent as much time in the
    # kernel as in user code (copy-on-write faults), a 5x slowdown.
    method = os.environ.get('VSIM_MP', 'spawn')
    context = multiprocessing.get_context(method)
    item_timeout = conf.get('chunk_timeout', 3000)

    import tempfile

    status_dir = tempfile.mkdtemp(prefix='vsim-status-')
    stuck_items = []
    stuck_after = conf.get('stuck_after_s', 900)

    with concurrent.futures.ProcessPoolExecutor(
            max_workers=workers, mp_context=context,
            initializer=_init_worker,
            initargs=(type(engine).__module__, status_dir)) as pool:
        pending = {}
        queue = list(enumerate(chunks))
        queue.reverse()
        results = {}

        def submit():
            while queue and len(pending) < workers * 2:
                if time.time() - start > wall_cap:
                    return

                index, chunk = queue.pop()
                future = pool.submit(_work, chunk)
                pending[future] = (index, chunk, time.time())

        submit()

        while pending:
            done, _ = concurrent.futures.wait(
                list(pending), timeout=5,
                return_when=concurrent.futures.FIRST_COMPLETED)

            for future in done:
                index, chunk, _ = pending.pop(future)

                try:
                    data = future.result()
                except Exception as e:
                    harness.append('worker failed: {!r}'.format(e))
                    continue

                if 'harness' in data:
                    harness.append(data['harness'])
                    continue

                results[index] = data
                done_items += len(chunk)

            now = time.time()

            # A worker that has been on one item for too long: remember the
            # item, the run is cut short and the item is examined alone in
            # a subprocess afterwards.
            try:
                names = os.listdir(status_dir)
            except OSError:
                names = []

            for name in names:
                try:
                    with open(os.path.join(status_dir, name)) as fin:
                        entry = json.load(fin)
                except (OSError, ValueError):
                    continue

                if now - entry['since'] > stuck_after:
                    stuck_items.append(entry['item'])

            if stuck_items:
                break

            for future, (index, chunk, since) in list(pending.items()):
                if now - since > item_timeout and not future.done():
                    harness.append('chunk {} timed out after {} s: {}'.format(
                        index, item_timeout, json.dumps(chunk)[:300]))
                    pending.pop(future)

            if harness:
                break

            submit()

        skipped = sum(len(chunk) for _, chunk in queue)

        if stuck_items:
            skipped += sum(len(chunk) for _, chunk, _ in pending.values())

        if harness or stuck_items:
            for process in list(getattr(pool, '_processes', {}).values()):
                try:
                    process.kill()
                except Exception:
                    pass

            pool.shutdown(wait=False, cancel_futures=True)

    for index in sorted(results):
        data = results[index]
        merge_stats(agg.stats, data['stats'])
        agg.violations.extend(data['violations'])
        agg.merge_distinct(data['distinct'])
        agg.ticks += data['ticks']
        agg.evaluations += data['evaluations']

        if len(agg.samples) < 3:
            agg.samples.extend(data['samples'][:1])

        log_hashes.extend(data['log_hashes'])

    if args.log_hashes:
        with open(args.log_hashes, 'w') as fout:
            json.dump(log_hashes, fout)

    import shutil

    shutil.rmtree(status_dir, ignore_errors=True)

    if harness:
        for line in harness[:5]:
            print('HARNESS: ' + line, flush=True)

        return 2

    wall_hangs = []

    for item in stuck_items[:3]:
        violation = confirm_wall_hang(engine, item,
                                      conf.get('hang_confirm_s', 600))

        if violation is None:
            # Slow, not hung (a loaded machine): the run was cut short, which
            # the evidence shows as planned vs. done runs; no verdict on it.
            print('NOTE: item {} kept a worker busy for more than {} s but '
                  'finished when run alone; the run was cut short'.format(
                      json.dumps(item)[:200], stuck_after), flush=True)
            continue

        wall_hangs.append(violation)

    # -- violations ----------------------------------------------------------
    findings = load_known_findings(engine.property_id)
    grouped = collections.OrderedDict()

    for violation in agg.violations:
        key = json.dumps([violation['class'], violation.get('signature')],
                         sort_keys=True)
        grouped.setdefault(key, []).append(violation)

    status = 0
    known_printed = {}
    reported = []
    budget_each = conf.get('minimise_s', 60)

    for key, group in grouped.items():
        violation = group[0]
        finding = match_finding(violation, findings)

        if finding is not None:
            known_printed.setdefault(finding['id'], [finding, 0])
            known_printed[finding['id']][1] += len(group)
            continue

        if len(reported) >= 5:
            continue

        small = minimise(engine, violation, time.time() + budget_each)
        # The minimised case may have turned into a known finding.
        finding = match_finding(small, findings)

        if finding is not None:
            known_printed.setdefault(finding['id'], [finding, 0])
            known_printed[finding['id']][1] += len(group)
            continue

        path = write_replay(engine, small, 'v')

        try:
            reproduced = replay_fresh(engine, path)
        except subprocess.TimeoutExpired:
            reproduced = False

        if not reproduced:
            # Fall back to the unminimised case before giving up.
            path = write_replay(engine, violation, 'v')

            try:
                reproduced = replay_fresh(engine, path)
            except subprocess.TimeoutExpired:
                reproduced = False

        if reproduced:
            print('VIOLATION property={} replay={}'.format(
                engine.property_id, path), flush=True)
            print('  class={} count={} detail={}'.format(
                small['class'], len(group),
                json.dumps(small['detail'])[:600]), flush=True)
            reported.append(path)
            status = 1
        else:
            print('HARNESS: violation class={} did not replay in a fresh '
                  'interpreter ({})'.format(violation['class'], path),
                  flush=True)

            if status == 0:
                status = 2

    for violation in wall_hangs:
        path = write_replay(engine, violation, 'v')
        print('VIOLATION property={} replay={}'.format(
            engine.property_id, path), flush=True)
        print('  class={} detail={}'.format(
            violation['class'], json.dumps(violation['detail'])[:600]),
            flush=True)
        reported.append(path)
        status = 1

    for finding, count in known_printed.values():
        print('KNOWN-FINDING: property={} {} (id={}, {} occurrence(s) in '
              'this run)'.format(engine.property_id, finding['what'],
                                 finding['id'], count), flush=True)

    wall = time.time() - start

    if not args.no_evidence and status != 2:
        coverage = {
            'evaluations': agg.evaluations,
            'distinct_nontrivial': sum(agg.distinct.values()),
            'rule': engine.rule,
            'samples': agg.samples[:3] or ['(no sample recorded)'],
            'simulated_runs': done_items,
            'planned_runs': len(items),
            'runs_not_started_wall_cap': skipped,
            'runs_per_hour': int(done_items / wall * 3600) if wall else 0,
            'simulated_time_ticks': agg.ticks,
            'counters': dict(sorted(agg.stats.items())),
            'real_vs_stub': engine.real_stub,
            'workers': workers,
            'violation_groups': len(grouped),
            'known_findings_hit': {str(f['id']): c
                                   for f, c in known_printed.values()},
        }
        coverage.update(engine.finish(tier, agg))
        evidence = {
            'property_id': engine.property_id,
            'tier': tier,
            'seed': args.seed,
            'level': engine.level,
            'coverage': coverage,
            'assumptions': engine.assumptions,
            'wall_s': round(wall, 2),
            'violations': len(reported),
        }
        os.makedirs(EVIDENCE_DIR, exist_ok=True)
        path = os.path.join(EVIDENCE_DIR, engine.property_id + '.json')

        with open(path + '.tmp', 'w') as fout:
            json.dump(evidence, fout, indent=1, sort_keys=True)
            fout.write('\n')

        os.replace(path + '.tmp', path)

    print('done property={} tier={} runs={}/{} evaluations={} distinct={} '
          'ticks={} wall={:.1f}s status={}'.format(
              engine.property_id, tier, done_items, len(items),
              agg.evaluations, sum(agg.distinct.values()), agg.ticks, wall, status),
          flush=True)

    return status
