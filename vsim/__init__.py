"""vsim - deterministic simulation kernel for eerimoq/asn1tools (see DESIGN.md).

Everything here runs under /venv/bin/python with asn1tools imported from the
/repo working tree.
"""

import os
import sys

REPO = os.environ.get('VSIM_REPO', '/repo')
VERIF = os.path.dirname(os.path.dirname(os.path.abspath(__file__)))


def ensure_env(preload=False):
    """Re-exec once with a fixed PYTHONHASHSEED (DESIGN 2.1) and make sure
    asn1tools is the /repo working tree."""

    want = os.environ.get('VSIM_HASHSEED', '0')
    env = dict(os.environ)
    reexec = False

    if os.environ.get('PYTHONHASHSEED') != want:
        env['PYTHONHASHSEED'] = want
        reexec = True

    if preload:
        # The cache simulation runs every process under the libc
        # interposer (disarmed until a compiler child arms it).
        sys.path.insert(0, VERIF)

        from vsim import build

        shim = build.build_vshim()

        if shim not in os.environ.get('LD_PRELOAD', '').split(':'):
            env['LD_PRELOAD'] = ':'.join(
                [shim] + [p for p in os.environ.get('LD_PRELOAD',
                                                    '').split(':') if p])
            reexec = True

    if reexec:
        os.execve(sys.executable, [sys.executable] + sys.argv, env)

    if REPO not in sys.path:
        sys.path.insert(0, REPO)

    import asn1tools

    path = os.path.dirname(os.path.abspath(asn1tools.__file__))

    if path != os.path.join(os.path.realpath(REPO), 'asn1tools'):
        raise RuntimeError(
            'asn1tools imported from {}, expected {}/asn1tools'.format(
                path, REPO))
