"""Filesystem fault seam for the compile cache (DESIGN 2.5): forked compiler
processes under the vshim libc interposer, deterministic os.urandom, Python
tick crash points, and damage operations between processes.
"""

import ctypes
import json
import os
import random
import select
import signal
import sys
import time

from . import steps

MODES = {'COUNT': 0, 'KILL': 1, 'TORN': 2, 'ERR': 3, 'SHORT': 4}
KINDS = ['write', 'pwrite', 'writev', 'fsync', 'fdatasync', 'ftruncate',
         'rename', 'unlink', 'open-creat']


class HarnessError(Exception):
    pass


def shim():
    """The preloaded interposer (None if this process runs without it)."""

    try:
        lib = ctypes.CDLL(None)
        lib.vshim_arm.argtypes = [ctypes.c_int, ctypes.c_long, ctypes.c_long,
                                  ctypes.c_long, ctypes.c_char_p]
        lib.vshim_count.restype = ctypes.c_long
        lib.vshim_fired.restype = ctypes.c_long
        lib.vshim_kind_count.restype = ctypes.c_long
        lib.vshim_kind_count.argtypes = [ctypes.c_int]

        return lib
    except (AttributeError, OSError):
        return None


def run_child(fn, directory, fault=None, urandom_seed=0, wall_timeout=45):
    """Forks a compiler process that runs fn() (which must return something
    JSON-able) with the given fault armed.

    fault: None | {'kind': 'libc', 'mode': 'COUNT'|'KILL'|'TORN'|'ERR'|
                   'SHORT', 'n': int, 'arg': int, 'duration': int}
                | {'kind': 'tick', 'n': int}

    Returns dict(status='returned'|'killed'|'died', payload=..., calls=int,
    ticks=int, fired=int)."""

    lib = shim()

    if lib is None:
        raise HarnessError('vshim is not preloaded in this process')

    # Measured in this sandbox: forked children running concurrently in
    # several workers are slower in total than one at a time (fork and
    # copy-on-write faults serialise in the kernel), so compiler processes
    # are run under a machine-wide lock; the workers overlap everything
    # else.
    lock = _child_lock()
    lock.__enter__()

    try:
        return _run_child(lib, fn, directory, fault, urandom_seed,
                          wall_timeout, lock)
    finally:
        lock.__exit__(None, None, None)


class _child_lock(object):

    def __enter__(self):
        import fcntl

        path = os.path.join('/dev/shm' if os.path.isdir('/dev/shm')
                            else '/tmp', 'vsim-c17-children.lock')
        self.fd = os.open(path, os.O_CREAT | os.O_RDWR, 0o666)
        fcntl.flock(self.fd, fcntl.LOCK_EX)

    def __exit__(self, *exc):
        if self.fd is not None:
            os.close(self.fd)
            self.fd = None

        return False


def _run_child(lib, fn, directory, fault, urandom_seed, wall_timeout,
               lock=None):
    read_fd, write_fd = os.pipe()
    sys.stdout.flush()
    sys.stderr.flush()
    pid = os.fork()

    if pid == 0:
        # -- compiler process -------------------------------------------------
        status = 1

        try:
            import faulthandler

            faulthandler.disable()
            os.close(read_fd)
            prng = random.Random(urandom_seed)
            os.urandom = lambda n: bytes(prng.getrandbits(8)
                                         for _ in range(n))
            clock = None
            prefixes = (steps.ASN1TOOLS_DIR + 'compiler.py',
                        _diskcache_core())

            if fault is not None and fault['kind'] == 'tick':
                target = fault['n']

                def crash():
                    os.kill(os.getpid(), signal.SIGKILL)

                clock = steps.StepClock(None, crash, prefixes)
                clock.hook_at = target
            else:
                clock = steps.StepClock(None, None, prefixes)

            if fault is not None and fault['kind'] == 'libc':
                lib.vshim_arm(MODES[fault['mode']], fault.get('n', 0),
                              fault.get('arg', -1), fault.get('duration', 1),
                              directory.encode())
            else:
                lib.vshim_arm(MODES['COUNT'], 0, 0, 1, directory.encode())

            try:
                clock.install()

                try:
                    payload = fn()
                finally:
                    clock.uninstall()
            finally:
                calls = lib.vshim_count()
                fired = lib.vshim_fired()
                kinds = {name: lib.vshim_kind_count(index)
                         for index, name in enumerate(KINDS)}
                lib.vshim_disarm()

            message = json.dumps({'payload': payload, 'calls': calls,
                                  'fired': fired, 'ticks': clock.ticks,
                                  'kinds': kinds}).encode()
            view = memoryview(message)

            while view:
                written = os.write(write_fd, view)
                view = view[written:]

            status = 0
        except BaseException as e:
            try:
                os.write(write_fd, json.dumps(
                    {'child_error': repr(e)[:500]}).encode())
            except Exception:
                pass
        finally:
            os._exit(status)

    # -- driver ---------------------------------------------------------------
    os.close(write_fd)
    chunks = []
    deadline = time.time() + wall_timeout

    try:
        while True:
            left = deadline - time.time()

            if left <= 0:
                # The compiler process does not come back (seen: sqlite
                # spinning in walTryBeginRead after an injected I/O error
                # on the -shm file).  The driver kills it, as a user would.
                os.kill(pid, signal.SIGKILL)
                os.waitpid(pid, 0)

                return {'status': 'timeout', 'payload': None, 'calls': None,
                        'ticks': None, 'fired': 1,
                        'wall_timeout': wall_timeout}

            ready, _, _ = select.select([read_fd], [], [], min(left, 5))

            if not ready:
                # A child that is not back after 10 s (hung, or a very slow
                # machine) no longer keeps the other workers' children
                # waiting.
                if lock is not None and time.time() > deadline \
                        - wall_timeout + 10:
                    lock.__exit__(None, None, None)
                    lock = None

                continue

            chunk = os.read(read_fd, 1 << 16)

            if not chunk:
                break

            chunks.append(chunk)
    finally:
        os.close(read_fd)

    _, wait_status = os.waitpid(pid, 0)
    data = b''.join(chunks)

    if os.WIFSIGNALED(wait_status):
        return {'status': 'killed', 'signal': os.WTERMSIG(wait_status),
                'payload': None, 'calls': None, 'ticks': None, 'fired': 1}

    if not data:
        return {'status': 'died', 'payload': None, 'calls': None,
                'ticks': None, 'fired': 0,
                'exit': os.WEXITSTATUS(wait_status)}

    message = json.loads(data.decode())

    if 'child_error' in message:
        raise HarnessError('compiler process failed: '
                           + message['child_error'])

    message['status'] = 'returned'

    return message


_DISKCACHE_CORE = [None]


def _diskcache_core():
    if _DISKCACHE_CORE[0] is None:
        import diskcache.core

        _DISKCACHE_CORE[0] = os.path.realpath(diskcache.core.__file__)

    return _DISKCACHE_CORE[0]


# -- damage between processes --------------------------------------------------

def list_roles(directory):
    """Maps role names (db, wal, shm, val[i]) to paths, by sorted listing."""

    roles = {}
    values = []

    for root, _, names in os.walk(directory):
        for name in sorted(names):
            path = os.path.join(root, name)

            if name == 'cache.db':
                roles['db'] = path
            elif name == 'cache.db-wal':
                roles['wal'] = path
            elif name == 'cache.db-shm':
                roles['shm'] = path
            elif name.endswith('.val'):
                values.append(path)

    for index, path in enumerate(sorted(values)):
        roles['val[{}]'.format(index)] = path

    return roles


def damage(directory, kind, role, fraction, bit=0, names=()):
    """Applies one damage operation; returns a description or None if the
    addressed file does not exist."""

    roles = list_roles(directory)

    if role == 'val[*]':
        candidates = sorted(r for r in roles if r.startswith('val['))

        if not candidates and kind.startswith('bitflip-'):
            # Small entries are stored in the database file itself.
            candidates = [r for r in ('wal', 'db') if r in roles][:1]

        if not candidates:
            return None

        role = candidates[int(fraction * 1000) % len(candidates)]

    path = roles.get(role)

    if path is None:
        return None

    size = os.path.getsize(path)

    if kind == 'delete':
        os.unlink(path)

        return {'kind': kind, 'role': role, 'size': size}

    if size == 0:
        return None

    offset = min(size - 1, int(fraction * size))

    if kind == 'truncate':
        with open(path, 'r+b') as fout:
            fout.truncate(offset)

        return {'kind': kind, 'role': role, 'size': size, 'offset': offset}

    if kind == 'zero-page':
        page = (offset // 4096) * 4096

        with open(path, 'r+b') as fout:
            fout.seek(page)
            fout.write(b'\x00' * min(4096, size - page))

        return {'kind': kind, 'role': role, 'size': size, 'offset': page}

    if kind == 'bitflip-name':
        # One character of an identifier of the specification (a member,
        # enumerator or type name as stored in the cache file) becomes
        # another letter / digit.
        with open(path, 'rb') as fin:
            data = fin.read()

        names = sorted(set(names))

        if not names:
            return None

        start = int(fraction * 7919) % len(names)

        for name in names[start:] + names[:start]:
            needle = name.encode('ascii')
            found = []
            at = data.find(needle)

            while at >= 0 and len(found) < 4096:
                found.append(at)
                at = data.find(needle, at + 1)

            if not found:
                continue

            # (The occurrence nearest to `fraction` of the file.)
            at = min(found, key=lambda f: abs(f - offset))
            pos = at + 1 + (bit % max(1, len(needle) - 1))

            if pos >= at + len(needle):
                pos = at + len(needle) - 1

            for candidate in (0, 1, 2):
                flipped = data[pos] ^ (1 << candidate)

                if 48 <= flipped <= 57 or 97 <= flipped <= 122:
                    with open(path, 'r+b') as fout:
                        fout.seek(pos)
                        fout.write(bytes([flipped]))

                    return {'kind': kind, 'role': role, 'size': size,
                            'offset': pos, 'bit': candidate, 'name': name,
                            'context': data[max(0, pos - 16):pos + 17].hex()}

        return None

    if kind == 'bitflip-text':
        # A flip that keeps a letter a letter and a digit a digit, inside
        # a run of identifier characters (pickled names and numbers): the
        # damaged file is likely to still load - as something else.
        with open(path, 'rb') as fin:
            data = fin.read()

        def alnum(b):
            return 48 <= b <= 57 or 65 <= b <= 90 or 97 <= b <= 122

        for pos in list(range(offset, size)) + list(range(0, offset)):
            if not (alnum(data[pos]) and 0 < pos < size - 1
                    and alnum(data[pos - 1]) and alnum(data[pos + 1])):
                continue

            for candidate in (bit % 3, (bit + 1) % 3, (bit + 2) % 3):
                if alnum(data[pos] ^ (1 << candidate)):
                    with open(path, 'r+b') as fout:
                        fout.seek(pos)
                        fout.write(bytes([data[pos] ^ (1 << candidate)]))

                    return {'kind': kind, 'role': role, 'size': size,
                            'offset': pos, 'bit': candidate,
                            'context': data[max(0, pos - 16):pos + 17].hex()}

        return None

    if kind == 'bitflip':
        with open(path, 'r+b') as fout:
            fout.seek(max(0, offset - 16))
            context = fout.read(33)
            fout.seek(offset)
            byte = fout.read(1)[0]
            fout.seek(offset)
            fout.write(bytes([byte ^ (1 << (bit % 8))]))

        return {'kind': kind, 'role': role, 'size': size, 'offset': offset,
                'bit': bit % 8, 'context': context.hex()}

    raise ValueError(kind)


class seeded_urandom(object):
    """Context manager: os.urandom from a seeded PRNG (in-process compiles)."""

    def __init__(self, seed):
        self.prng = random.Random(seed)

    def __enter__(self):
        self.saved = os.urandom
        os.urandom = lambda n: bytes(self.prng.getrandbits(8)
                                     for _ in range(n))

    def __exit__(self, *exc):
        os.urandom = self.saved

        return False


def scratch_root(prefix):
    """Scratch directory on tmpfs when there is one (a process kill loses
    nothing there either), else under $TMPDIR."""

    import tempfile

    base = '/dev/shm' if os.path.isdir('/dev/shm') and os.access(
        '/dev/shm', os.W_OK) else None

    return tempfile.mkdtemp(prefix=prefix, dir=base)
