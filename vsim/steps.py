"""Step clock (DESIGN 2.2): the only notion of time in the simulation.

One `line` trace event in a frame whose code lives under one of the traced
path prefixes is one tick.  A call that exceeds its budget is aborted by
raising `StepBudgetExceeded` (a BaseException) from the trace function.
"""

import os
import re
import sys
import threading

from . import REPO

ASN1TOOLS_DIR = os.path.join(os.path.realpath(REPO), 'asn1tools') + os.sep


class StepBudgetExceeded(BaseException):
    pass


class InjectedFault(MemoryError):
    """Allocation failure injected by the simulator at a chosen tick."""


def _load_vtrace():
    if os.environ.get('VSIM_PYTRACE') == '1':
        return None

    try:
        from . import build

        build.ensure()

        import vtrace

        vtrace.install_chunk_cache()

        return vtrace
    except Exception as e:   # pragma: no cover - fallback path
        sys.stderr.write('vsim: C step clock unavailable ({!r}), using the '
                         'Python tracer\n'.format(e))

        return None


_VTRACE = _load_vtrace()


class PyStepClock(object):
    """Pure Python step clock (fallback; same semantics as the C one)."""

    def __init__(self, limit=None, hook=None, prefixes=(ASN1TOOLS_DIR,)):
        self.ticks = 0
        self.limit = -1 if limit is None else limit
        self.hook = hook
        self.hook_at = 0 if hook is not None else -1
        self.prefixes = tuple(prefixes)
        self._cache = {}
        self.tracer = self._make()

    def _make(self):
        clock = self
        cache = self._cache
        prefixes = self.prefixes

        def local(frame, event, arg):
            if event == 'line':
                clock.ticks += 1

                if clock.limit >= 0 and clock.ticks > clock.limit:
                    clock.limit = -1

                    raise StepBudgetExceeded()

                if (clock.hook_at >= 0 and clock.ticks >= clock.hook_at
                        and clock.hook is not None):
                    clock.hook()

            return local

        def glob(frame, event, arg):
            filename = frame.f_code.co_filename
            traced = cache.get(filename)

            if traced is None:
                traced = filename.startswith(prefixes)
                cache[filename] = traced

            if traced:
                return local

            return None

        return glob

    def install(self):
        sys.settrace(self.tracer)

    def uninstall(self):
        sys.settrace(None)


def StepClock(limit=None, hook=None, prefixes=(ASN1TOOLS_DIR,)):
    """Step clock of the calling thread.  Attributes: ticks, limit (<0:
    none), hook, hook_at (tick at which hook() is called; the hook moves it
    forward).  install()/uninstall() act on the calling thread."""

    if _VTRACE is None:
        return PyStepClock(limit, hook, prefixes)

    clock = _VTRACE.Clock(tuple(prefixes), StepBudgetExceeded)
    clock.limit = -1 if limit is None else limit
    clock.hook = hook
    clock.hook_at = 0 if hook is not None else -1

    return clock


_ADDR = re.compile(r'0x[0-9a-fA-F]{6,}')


def raise_site(e):
    """file:function of the innermost asn1tools frame of e's traceback."""

    site = None
    tb = e.__traceback__

    while tb is not None:
        code = tb.tb_frame.f_code

        if code.co_filename.startswith(ASN1TOOLS_DIR):
            site = '{}:{}'.format(os.path.basename(code.co_filename),
                                  code.co_qualname)

        tb = tb.tb_next

    return site


def exc_outcome(e):
    try:
        text = str(e)
    except Exception as e2:
        text = '<str() failed: {}>'.format(type(e2).__name__)

    return ['err',
            type(e).__module__ + '.' + type(e).__name__,
            _ADDR.sub('0xADDR', text),
            raise_site(e)]


def call(fn, limit, hook=None, hook_at=0):
    """Run fn() under a step budget.  Returns (outcome, ticks) where outcome
    is ['ok', value] | ['err', type, text, site] | ['hang'] | ['injected']."""

    clock = StepClock(limit, hook)

    if hook is not None:
        clock.hook_at = hook_at

    try:
        clock.install()

        try:
            value = fn()
        finally:
            clock.uninstall()

        outcome = ['ok', value]
    except StepBudgetExceeded as e:
        outcome = ['hang', raise_site(e)]
    except InjectedFault:
        outcome = ['injected']
    except RecursionError:
        outcome = ['err', 'builtins.RecursionError', '', None]
    except Exception as e:
        outcome = exc_outcome(e)

    return outcome, clock.ticks
