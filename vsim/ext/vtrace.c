/* vtrace - C-level step clock for the simulator (DESIGN 2.2).
 *
 * A Clock object installed with PyEval_SetTrace counts PyTrace_LINE events
 * of frames whose code object's file name starts with one of the given
 * prefixes.  It raises `budget_exc` when `ticks` exceeds `limit`, and calls
 * `hook` (a Python callable, e.g. the thread scheduler or a fault injector)
 * when `ticks` reaches `hook_at`.  Doing this in C avoids one Python frame
 * per line event (CPython 3.12 mmaps/munmaps a 16 KiB data-stack chunk each
 * time such a frame straddles a chunk boundary, which serialises 16 worker
 * processes in the kernel).
 */

#define PY_SSIZE_T_CLEAN
#include <Python.h>
#include <frameobject.h>
#include <structmember.h>

#define CACHE_SIZE 256

typedef struct {
    PyObject_HEAD
    long long ticks;
    long long limit;     /* < 0: none */
    long long hook_at;   /* < 0: none */
    int opcodes;         /* tick per bytecode instead of per line */
    PyObject *hook;
    PyObject *prefixes;  /* tuple of str */
    PyObject *budget_exc;
    PyObject *cache_keys[CACHE_SIZE];
    char cache_vals[CACHE_SIZE];
} Clock;

static int
is_traced(Clock *self, PyObject *filename)
{
    size_t slot = (((size_t)filename) >> 4) % CACHE_SIZE;
    Py_ssize_t i, n;
    int traced = 0;

    if (self->cache_keys[slot] == filename) {
        return self->cache_vals[slot];
    }

    if (PyUnicode_Check(filename)) {
        n = PyTuple_GET_SIZE(self->prefixes);

        for (i = 0; i < n; i++) {
            PyObject *prefix = PyTuple_GET_ITEM(self->prefixes, i);
            Py_ssize_t r = PyUnicode_Tailmatch(filename, prefix, 0,
                                               PY_SSIZE_T_MAX, -1);

            if (r == 1) {
                traced = 1;
                break;
            }

            if (r < 0) {
                PyErr_Clear();
            }
        }
    }

    Py_XDECREF(self->cache_keys[slot]);
    Py_INCREF(filename);
    self->cache_keys[slot] = filename;
    self->cache_vals[slot] = (char)traced;

    return traced;
}

static int
tracefunc(PyObject *obj, PyFrameObject *frame, int what, PyObject *arg)
{
    Clock *self = (Clock *)obj;
    PyCodeObject *code;
    int traced;

    if (self->opcodes) {
        /* Finer clock: one tick per bytecode instruction of traced
           frames (pre-emption inside a source line). */
        if (what == PyTrace_CALL) {
            code = PyFrame_GetCode(frame);
            traced = is_traced(self, code->co_filename);
            Py_DECREF(code);

            if (traced) {
                if (PyObject_SetAttrString((PyObject *)frame,
                                           "f_trace_opcodes", Py_True) < 0) {
                    PyErr_Clear();
                }
            }

            return 0;
        }

        if (what != PyTrace_OPCODE) {
            return 0;
        }
    }
    else if (what != PyTrace_LINE) {
        return 0;
    }

    code = PyFrame_GetCode(frame);
    traced = is_traced(self, code->co_filename);
    Py_DECREF(code);

    if (!traced) {
        return 0;
    }

    self->ticks++;

    if (self->limit >= 0 && self->ticks > self->limit) {
        /* Raise once: CPython 3.12 keeps the trace function installed, and
           the lines run while unwinding must not raise again. */
        self->limit = -1;
        PyErr_SetNone(self->budget_exc);
        return -1;
    }

    if (self->hook_at >= 0 && self->ticks >= self->hook_at
        && self->hook != NULL && self->hook != Py_None) {
        PyObject *result = PyObject_CallNoArgs(self->hook);

        if (result == NULL) {
            return -1;
        }

        Py_DECREF(result);
    }

    return 0;
}

static int
Clock_init(Clock *self, PyObject *args, PyObject *kwargs)
{
    static char *names[] = {"prefixes", "budget_exc", NULL};
    PyObject *prefixes;
    PyObject *budget_exc;

    if (!PyArg_ParseTupleAndKeywords(args, kwargs, "O!O", names,
                                     &PyTuple_Type, &prefixes,
                                     &budget_exc)) {
        return -1;
    }

    Py_INCREF(prefixes);
    Py_XSETREF(self->prefixes, prefixes);
    Py_INCREF(budget_exc);
    Py_XSETREF(self->budget_exc, budget_exc);
    self->ticks = 0;
    self->limit = -1;
    self->hook_at = -1;
    self->opcodes = 0;

    return 0;
}

static void
Clock_dealloc(Clock *self)
{
    int i;

    for (i = 0; i < CACHE_SIZE; i++) {
        Py_XDECREF(self->cache_keys[i]);
    }

    Py_XDECREF(self->hook);
    Py_XDECREF(self->prefixes);
    Py_XDECREF(self->budget_exc);
    Py_TYPE(self)->tp_free((PyObject *)self);
}

static PyObject *
Clock_install(Clock *self, PyObject *unused)
{
    PyEval_SetTrace(tracefunc, (PyObject *)self);
    Py_RETURN_NONE;
}

static PyObject *
Clock_uninstall(Clock *self, PyObject *unused)
{
    PyEval_SetTrace(NULL, NULL);
    Py_RETURN_NONE;
}

static PyMethodDef Clock_methods[] = {
    {"install", (PyCFunction)Clock_install, METH_NOARGS,
     "Install as the trace function of the calling thread."},
    {"uninstall", (PyCFunction)Clock_uninstall, METH_NOARGS,
     "Remove the trace function of the calling thread."},
    {NULL}
};

static PyMemberDef Clock_members[] = {
    {"ticks", T_LONGLONG, offsetof(Clock, ticks), 0, "line events counted"},
    {"limit", T_LONGLONG, offsetof(Clock, limit), 0, "budget (<0: none)"},
    {"hook_at", T_LONGLONG, offsetof(Clock, hook_at), 0,
     "tick at which hook is called (<0: never)"},
    {"hook", T_OBJECT, offsetof(Clock, hook), 0, "callable"},
    {"opcodes", T_INT, offsetof(Clock, opcodes), 0,
     "count bytecode instructions instead of lines"},
    {NULL}
};

static PyTypeObject ClockType = {
    PyVarObject_HEAD_INIT(NULL, 0)
    .tp_name = "vtrace.Clock",
    .tp_basicsize = sizeof(Clock),
    .tp_flags = Py_TPFLAGS_DEFAULT,
    .tp_new = PyType_GenericNew,
    .tp_init = (initproc)Clock_init,
    .tp_dealloc = (destructor)Clock_dealloc,
    .tp_methods = Clock_methods,
    .tp_members = Clock_members,
};

/* -- data-stack chunk cache ------------------------------------------------
 *
 * CPython 3.12 allocates interpreter frames from 16 KiB "data stack chunks"
 * obtained from the object arena allocator (mmap) and returns a chunk the
 * moment its first frame is popped.  Code that calls a function in a loop
 * at a depth where the callee's frame starts a new chunk therefore does one
 * mmap + one munmap per call.  Keep a few chunks around instead.  The arena
 * allocator is only used with the GIL held.
 */

#define CHUNK_SIZE 16384
#define CHUNK_CACHE 16

static PyObjectArenaAllocator original_arena;
static void *chunk_cache[CHUNK_CACHE];
static int chunk_count = 0;
static int chunk_cache_installed = 0;
static long long chunk_hits = 0;

static void *
cached_arena_alloc(void *ctx, size_t size)
{
    if (size == CHUNK_SIZE && chunk_count > 0) {
        void *ptr = chunk_cache[--chunk_count];

        memset(ptr, 0, CHUNK_SIZE);
        chunk_hits++;

        return ptr;
    }

    return original_arena.alloc(original_arena.ctx, size);
}

static void
cached_arena_free(void *ctx, void *ptr, size_t size)
{
    if (size == CHUNK_SIZE && chunk_count < CHUNK_CACHE) {
        chunk_cache[chunk_count++] = ptr;

        return;
    }

    original_arena.free(original_arena.ctx, ptr, size);
}

static PyObject *
install_chunk_cache(PyObject *module, PyObject *unused)
{
    if (!chunk_cache_installed) {
        PyObjectArenaAllocator mine;

        PyObject_GetArenaAllocator(&original_arena);
        mine.ctx = NULL;
        mine.alloc = cached_arena_alloc;
        mine.free = cached_arena_free;
        PyObject_SetArenaAllocator(&mine);
        chunk_cache_installed = 1;
    }

    Py_RETURN_NONE;
}

static PyObject *
chunk_cache_hits(PyObject *module, PyObject *unused)
{
    return PyLong_FromLongLong(chunk_hits);
}

static PyMethodDef module_methods[] = {
    {"install_chunk_cache", install_chunk_cache, METH_NOARGS,
     "Cache 16 KiB data-stack chunks instead of munmapping them."},
    {"chunk_cache_hits", chunk_cache_hits, METH_NOARGS, ""},
    {NULL}
};

static PyModuleDef vtrace_module = {
    PyModuleDef_HEAD_INIT, "vtrace", "C step clock", -1, module_methods
};

PyMODINIT_FUNC
PyInit_vtrace(void)
{
    PyObject *module;

    if (PyType_Ready(&ClockType) < 0) {
        return NULL;
    }

    module = PyModule_Create(&vtrace_module);

    if (module == NULL) {
        return NULL;
    }

    Py_INCREF(&ClockType);

    if (PyModule_AddObject(module, "Clock", (PyObject *)&ClockType) < 0) {
        Py_DECREF(&ClockType);
        Py_DECREF(module);
        return NULL;
    }

    return module;
}
