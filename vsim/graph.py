"""Fingerprint of the compiled type graph hanging off a Specification.

The graph is meant to be read-only after compile.  The fingerprint is NOT an
oracle (a transparent memo would change it while the property still holds);
it is a guide: when it differs from the fingerprint of a specification that
was compiled from the same text and not used, the engines amplify the
history (replay it several more times) before comparing behaviour again, so
that state which only bites after accumulating is caught by the behavioural
oracle.
"""

import hashlib

SCALARS = (int, float, str, bytes, bool, type(None))


def fingerprint(spec, limit=200000):
    """Returns (digest, entries) where entries is a list of
    'path=value' strings in deterministic traversal order."""

    entries = []
    seen = {}

    def visit(obj, path, depth):
        if len(entries) > limit or depth > 60:
            return

        if isinstance(obj, int) and not isinstance(obj, bool) \
                and abs(obj) >= 1 << 64:
            # (repr() of a huge int is subject to the interpreter's
            # int-to-str digit limit; hex is not.)
            entries.append('{}=int:{:x}'.format(path, obj))

            return

        if isinstance(obj, SCALARS):
            entries.append('{}={!r}'.format(path, obj))

            return

        if isinstance(obj, (bytearray, memoryview)):
            entries.append('{}=bytearray:{}'.format(path, bytes(obj).hex()))

            return

        key = id(obj)

        if key in seen:
            entries.append('{}->{}'.format(path, seen[key]))

            return

        seen[key] = path

        if isinstance(obj, dict):
            entries.append('{}=dict:{}'.format(path, len(obj)))

            for index, (k, v) in enumerate(obj.items()):
                if isinstance(k, SCALARS):
                    visit(v, '{}[{!r}]'.format(path, k), depth + 1)
                else:
                    visit(k, '{}<key{}>'.format(path, index), depth + 1)
                    visit(v, '{}<val{}>'.format(path, index), depth + 1)

            return

        if isinstance(obj, (list, tuple, set, frozenset)):
            items = list(obj)

            if isinstance(obj, (set, frozenset)):
                items = sorted(items, key=repr)

            entries.append('{}={}:{}'.format(path, type(obj).__name__,
                                             len(items)))

            for index, item in enumerate(items):
                visit(item, '{}[{}]'.format(path, index), depth + 1)

            return

        module = getattr(type(obj), '__module__', '') or ''

        if module.startswith('asn1tools'):
            entries.append('{}=<{}>'.format(path, type(obj).__name__))
            attributes = getattr(obj, '__dict__', None)

            if attributes is not None:
                for name, value in attributes.items():
                    visit(value, '{}.{}'.format(path, name), depth + 1)

            return

        # Foreign objects (struct.Struct, compiled regexes, functions, ...):
        # identity by type only.
        entries.append('{}=<foreign {}>'.format(path, type(obj).__name__))

    for name, compiled in spec.types.items():
        visit(compiled, name, 0)

    digest = hashlib.sha256('\n'.join(entries).encode('utf-8',
                                                      'replace')).hexdigest()

    return digest, entries


def difference(a, b, count=3):
    """First few differing entries of two entry lists."""

    out = []

    for x, y in zip(a, b):
        if x != y:
            out.append([x[:160], y[:160]])

            if len(out) >= count:
                break

    if len(a) != len(b) and not out:
        out.append(['length {}'.format(len(a)), 'length {}'.format(len(b))])

    return out
