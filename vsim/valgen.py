"""Independent interpreter of a *freshly parsed* specification dictionary that
draws values for its types (DESIGN 2.6).  It never looks at compiled objects.
"""

import datetime
import string

EXT = None   # the parser's EXTENSION_MARKER


PLAIN_REFERENCE_KEYS = {'type', 'name', 'optional', 'default', 'tag'}


class Unsupported(Exception):
    pass


INT_BOUNDARY = [0, 0, 1, -1, 2, 127, 128, -128, -129, 255, 256, 32767, 32768,
                -32768, -32769, 65535, 65536, 2 ** 31 - 1, 2 ** 31,
                -2 ** 31, 2 ** 32, 2 ** 63 - 1, 2 ** 63, -2 ** 63,
                2 ** 64, 2 ** 100, 10, 1000]
REALS = [0.0, 1.0, -1.0, 0.5, -1.5, 3.14, 1e-3, 1e10, 2.0 ** 70,
         1.7976931348623157e308, 5e-324, 123456.789, 100.0, -0.0]
SPECIAL_REALS = [float('inf'), float('-inf'), float('nan')]
LEN_BOUNDARY = [0, 0, 1, 1, 2, 3, 5, 8, 16]
BIG_LEN = [127, 128, 129, 255, 256, 16383, 16384, 16385, 65535, 65536,
           70000]

PRINTABLE = string.ascii_letters + string.digits + " '()+,-./:=?"
ALPHABETS = {
    'NumericString': '0123456789 ',
    'PrintableString': PRINTABLE,
    'IA5String': ''.join(chr(c) for c in range(32, 127)),
    'VisibleString': ''.join(chr(c) for c in range(32, 127)),
}


class ValGen(object):

    def __init__(self, spec, rng, numeric_enums=False, max_depth=4,
                 big=False, specials=True, absent_additions=True,
                 addition_bias=0.25):
        self.spec = spec
        self.rng = rng
        self.numeric_enums = numeric_enums
        self.max_depth = max_depth
        self.big = big
        self.specials = specials
        # Text codecs (JER/XER/GSER) treat extension additions as ordinary
        # mandatory members, so leaving them out is an invalid value there.
        self.absent_additions = absent_additions
        self.size_left = 6000
        self.nodes_left = 8000
        self.pool = {}
        # Probability of choosing an extension-addition alternative of an
        # extensible CHOICE / ENUMERATED.
        self.addition_bias = addition_bias
        # DEFAULT literals that occur anywhere in the specification, by
        # Python type: values equal to a default take special paths in the
        # encoders (omitted from the encoding), also where the default
        # belongs to ANOTHER member that merely shares the compiled type.
        self.default_pool = {}

        def scan(node):
            if isinstance(node, dict):
                if 'default' in node and isinstance(node['default'],
                                                    (int, str)) \
                        and not isinstance(node['default'], bool):
                    value = node['default']
                    self.default_pool.setdefault(type(value), [])

                    if value not in self.default_pool[type(value)]:
                        self.default_pool[type(value)].append(value)

                for child in node.values():
                    scan(child)
            elif isinstance(node, (list, tuple)):
                for child in node:
                    scan(child)

        scan(spec)

    # -- lookup ------------------------------------------------------------

    def lookup(self, section, name, module_name, _seen=None):
        module = self.spec[module_name]

        if name in module[section]:
            return module[section][name], module_name

        for from_module, names in module['imports'].items():
            if name in names and from_module in self.spec:
                return self.lookup(section, name, from_module)

        raise Unsupported('{} {} not found from {}'.format(section, name,
                                                           module_name))

    def resolve(self, desc, module_name):
        """Follow type references; returns (descriptor, module_name, chain)
        where chain is the list of descriptors walked (outermost first)."""

        chain = [desc]

        for _ in range(50):
            type_name = desc['type']

            if 'actual-parameters' in desc:
                # X.683 parameterized type: instantiate the template with
                # the actual parameters (on a private copy).
                desc, module_name = self.instantiate(desc, module_name)
                chain.append(desc)

                continue

            if type_name in KNOWN or 'members' in desc or 'element' in desc:
                return desc, module_name, chain

            if '&' in type_name:
                raise Unsupported(type_name)

            desc, module_name = self.lookup('types', type_name, module_name)

            if 'parameters' in desc:
                raise Unsupported('parameterized')

            chain.append(desc)

        raise Unsupported('reference loop')

    def instantiate(self, desc, module_name):
        import copy

        template, template_module = self.lookup('types', desc['type'],
                                                module_name)

        if 'parameters' not in template:
            raise Unsupported('not parameterized')

        dummies = template['parameters']
        actuals = desc['actual-parameters']

        if len(dummies) != len(actuals):
            raise Unsupported('parameter count')

        instance = copy.deepcopy(template)
        del instance['parameters']

        def substitute(node):
            if node is EXT:
                return

            if isinstance(node, list):
                for item in node:
                    substitute(item)

                return

            for member in node.get('members', []):
                substitute(member)

            if 'element' in node:
                substitute(node['element'])

            for dummy, actual in zip(dummies, actuals):
                if node.get('type') == dummy:
                    node.update(copy.deepcopy(actual))

                for index, parameter in enumerate(
                        node.get('actual-parameters', [])):
                    if parameter.get('type') == dummy:
                        node['actual-parameters'][index] = copy.deepcopy(
                            actual)

                for key in ('size', 'restricted-to'):
                    if key in node:
                        replaced = []

                        for item in node[key]:
                            if isinstance(item, tuple):
                                item = tuple(actual if v == dummy else v
                                             for v in item)
                            elif item == dummy:
                                item = actual

                            replaced.append(item)

                        node[key] = replaced

        substitute(instance)

        return instance, template_module

    def top_types(self):
        """(module, type) pairs usable through Specification.encode (unique
        names, not parameterized)."""

        counts = {}

        for module_name, module in self.spec.items():
            for type_name, desc in module['types'].items():
                counts.setdefault(type_name, []).append(module_name)

        return [(modules[0], type_name)
                for type_name, modules in counts.items()
                if len(modules) == 1
                and 'parameters' not in self.spec[modules[0]]['types'][type_name]]

    # -- values ------------------------------------------------------------

    def value(self, module_name, type_name):
        desc = self.spec[module_name]['types'][type_name]
        # Total size budget of one value (octets / characters / elements).
        self.size_left = 150000 if self.big else 6000
        # Wide non-recursive types with long mandatory lists can still blow
        # up below max_depth: bound the number of nodes of one value.
        self.nodes_left = 120000 if self.big else 8000

        return self.gen(desc, module_name, 0)

    def first(self, chain, key):
        for desc in chain:
            if key in desc:
                return desc[key]

        return None

    def bound(self, value, module_name, chain):
        if isinstance(value, (int, float)) and not isinstance(value, bool):
            return value

        if value in ('MIN', 'MAX'):
            return None

        if isinstance(value, str):
            try:
                return float(value) if '.' in value else int(value)
            except ValueError:
                pass

            for desc in chain:
                named = desc.get('named-numbers')

                if named and value in named:
                    return named[value]

            found, _ = self.lookup('values', value, module_name)

            return found['value']

        raise Unsupported('bound {!r}'.format(value))

    def ranges(self, constraint, module_name, chain):
        """constraint: list of items (tuple | scalar | None).  Returns
        (list of (lo, hi) root ranges, extensible)."""

        root = []
        extensible = False

        for item in constraint:
            if item is EXT:
                extensible = True
                break

            if isinstance(item, tuple):
                lo = self.bound(item[0], module_name, chain)
                hi = self.bound(item[1], module_name, chain)
            else:
                lo = hi = self.bound(item, module_name, chain)

            root.append((lo, hi))

        return root, extensible

    def pick_length(self, desc_chain, module_name, small_default=True):
        length, minimum = self._pick_length(desc_chain, module_name)

        if length > self.size_left:
            length = max(minimum, min(length, max(0, self.size_left)))

        self.size_left -= max(1, length)

        return length

    def _pick_length(self, desc_chain, module_name):
        """Returns (drawn length, smallest permitted length)."""

        rng = self.rng
        size = self.first(desc_chain, 'size')

        if size is None:
            if self.big and rng.random() < 0.1:
                return rng.choice(BIG_LEN), 0

            return rng.choice(LEN_BOUNDARY), 0

        root, extensible = self.ranges(size, module_name, desc_chain)

        if not root:
            return rng.choice(LEN_BOUNDARY), 0

        lo, hi = rng.choice(root)
        lo = 0 if lo is None else int(lo)

        if hi is None:
            hi = lo + rng.choice(LEN_BOUNDARY)

        hi = int(hi)

        if extensible and rng.random() < 0.25:
            # Outside the root of an extensible constraint: above it, or
            # (just as legal) below it.
            if lo > 0 and rng.random() < 0.5:
                return rng.choice([0, lo - 1]), 0

            return hi + rng.choice([1, 2, 10]), lo

        if hi - lo > 400 and not (self.big and rng.random() < 0.3):
            # Big permitted range: stay small most of the time.
            return min(hi, lo + rng.choice(LEN_BOUNDARY)), lo

        if lo > hi:
            raise Unsupported('empty range')

        return rng.choice([lo, hi, rng.randint(lo, hi),
                           rng.randint(lo, hi)]), lo

    def gen(self, desc, module_name, depth):
        rng = self.rng
        outer_module = module_name

        if depth > self.max_depth + 40:
            raise Unsupported('no finite value found')

        self.nodes_left -= 1

        if self.nodes_left < 0:
            raise Unsupported('value too large')

        resolved, module_name, chain = self.resolve(desc, module_name)
        kind = resolved['type']

        # Values of a named type are sometimes used again wherever that
        # type is referenced (the same Colour through Pixel and through
        # Pen): per-value state kept on shared compiled types shows there.
        pool_key = None

        if (len(chain) > 1 and depth > 0
                and not (set(desc) - PLAIN_REFERENCE_KEYS)):
            pool_key = (outer_module, desc['type'])
            pool = self.pool.setdefault(pool_key, [])

            if pool and rng.random() < 0.3:
                import copy

                cost, pooled = rng.choice(pool)

                # (A pooled value counts against the budget of the value
                # it becomes part of.)
                if cost <= self.nodes_left:
                    self.nodes_left -= cost

                    return copy.deepcopy(pooled)

        before = self.nodes_left
        value = self.gen_resolved(kind, resolved, chain, outer_module,
                                  module_name, depth)

        if pool_key is not None and len(self.pool[pool_key]) < 6:
            import copy

            self.pool[pool_key].append((before - self.nodes_left + 1,
                                        copy.deepcopy(value)))

        return value

    def gen_resolved(self, kind, resolved, chain, outer_module, module_name,
                     depth):
        rng = self.rng

        if kind == 'BOOLEAN':
            return rng.random() < 0.5
        elif kind == 'INTEGER':
            return self.gen_integer(chain, outer_module, module_name)
        elif kind == 'REAL':
            if self.specials and rng.random() < 0.08:
                return rng.choice(SPECIAL_REALS)

            if rng.random() < 0.3:
                return float(rng.randint(-10 ** 6, 10 ** 6)) / rng.choice(
                    [1, 2, 8, 1024])

            return rng.choice(REALS)
        elif kind == 'NULL':
            return None
        elif kind == 'ENUMERATED':
            return self.gen_enumerated(resolved, module_name)
        elif kind == 'BIT STRING':
            nbits = self.pick_length(chain, module_name)
            nbytes = (nbits + 7) // 8
            data = bytearray(rng.randrange(256) for _ in range(nbytes))

            if nbits % 8 and rng.random() < 0.95:
                data[-1] &= (0xff << (8 - nbits % 8)) & 0xff

            return (bytes(data), nbits)
        elif kind == 'OCTET STRING':
            length = self.pick_length(chain, module_name)

            return bytes(rng.randrange(256) for _ in range(length))
        elif kind == 'OBJECT IDENTIFIER':
            first = rng.choice([0, 1, 2])
            second = rng.randrange(40) if (first < 2 or rng.random() < 0.9) \
                else rng.choice([40, 100, 999])
            rest = [rng.choice([0, 1, 127, 128, 840, 113549, 2 ** 32])
                    for _ in range(rng.choice([0, 1, 3, 6]))]

            return '.'.join(str(v) for v in [first, second] + rest)
        elif kind in STRINGS:
            return self.gen_string(kind, chain, module_name)
        elif kind == 'UTCTime':
            return self.gen_datetime(1950, 2049, micro=False,
                                     tz=rng.random() < 0.3)
        elif kind == 'GeneralizedTime':
            return self.gen_datetime(1900, 2100, micro=rng.random() < 0.3,
                                     tz=rng.random() < 0.3)
        elif kind == 'DATE':
            return self.gen_datetime(1900, 2100, False, False).date()
        elif kind == 'TIME-OF-DAY':
            return self.gen_datetime(1900, 2100, False, False).time()
        elif kind == 'DATE-TIME':
            return self.gen_datetime(1900, 2100, False, False)
        elif kind in ('SEQUENCE', 'SET'):
            return self.gen_members(resolved, module_name, depth)
        elif kind == 'CHOICE':
            return self.gen_choice(resolved, module_name, depth)
        elif kind in ('SEQUENCE OF', 'SET OF'):
            return self.gen_list(resolved, chain, module_name, depth)
        elif kind == 'ANY':
            return bytes([5, 0])
        else:
            raise Unsupported(kind)

    def gen_integer(self, chain, outer_module, module_name):
        rng = self.rng
        pool = self.default_pool.get(int)

        if pool and rng.random() < 0.15:
            return rng.choice(pool)

        restricted = self.first(chain, 'restricted-to')

        if restricted is None:
            if rng.random() < 0.3:
                return rng.randint(-300, 70000)

            return rng.choice(INT_BOUNDARY)

        # The constraint may live in the referencing descriptor (outer
        # module) or in the referenced one; value names are looked up from
        # the module that spells them.  Try the outer one first.
        try:
            root, extensible = self.ranges(restricted, outer_module, chain)
        except Unsupported:
            root, extensible = self.ranges(restricted, module_name, chain)

        if not root:
            return rng.choice(INT_BOUNDARY)

        lo, hi = rng.choice(root)

        if lo is not None:
            lo = int(lo)

        if hi is not None:
            hi = int(hi)

        if extensible and rng.random() < 0.15:
            if hi is not None:
                return hi + rng.choice([1, 2, 1000])

        if lo is None and hi is None:
            return rng.choice(INT_BOUNDARY)

        if lo is None:
            return hi - rng.choice([0, 1, 200, 2 ** 33])

        if hi is None:
            return lo + rng.choice([0, 1, 200, 2 ** 33])

        if lo > hi:
            # (A bound whose name means something else than this reader
            # thinks: a name that is both a value and a named number.)
            raise Unsupported('empty range')

        return rng.choice([lo, hi, rng.randint(lo, hi), rng.randint(lo, hi)])

    def gen_enumerated(self, resolved, module_name):
        rng = self.rng
        root = []
        additions = []
        target = root

        for item in resolved['values']:
            if item is EXT:
                target = additions
                continue

            target.append(item)

        pool = root

        if additions and rng.random() < self.addition_bias:
            pool = additions

        name, number = rng.choice(pool)

        if self.numeric_enums:
            if not isinstance(number, int):
                number = self.lookup('values', number, module_name)[0]['value']

            return number

        return name

    def gen_string(self, kind, chain, module_name):
        rng = self.rng
        pool = [v for v in self.default_pool.get(str, [])
                if not v.startswith(('0x', '0b'))]

        if pool and rng.random() < 0.1:
            return rng.choice(pool)

        length = self.pick_length(chain, module_name)
        alphabet = None
        from_ = self.first(chain, 'from')

        if from_ is not None:
            chars = []

            for item in from_:
                if item is EXT:
                    break

                if isinstance(item, tuple):
                    lo, hi = item

                    if len(lo) == 1 and len(hi) == 1:
                        chars.extend(chr(c) for c in range(ord(lo),
                                                           ord(hi) + 1))
                elif isinstance(item, str):
                    chars.extend(item)

            if chars:
                alphabet = ''.join(chars)

        if alphabet is None:
            alphabet = ALPHABETS.get(kind)

        if alphabet is not None:
            return ''.join(rng.choice(alphabet) for _ in range(length))

        mode = rng.random()

        if kind in ('GeneralString', 'TeletexString', 'GraphicString',
                    'ObjectDescriptor'):
            top = 255
        elif kind == 'BMPString':
            top = 0xffff
        else:
            top = 0x10ffff

        out = []

        for _ in range(length):
            if mode < 0.5:
                c = rng.randrange(32, 127)
            else:
                c = rng.choice([rng.randrange(32, 127),
                                rng.randrange(0xa0, 0x100),
                                min(top, rng.randrange(0x100, 0x800)),
                                min(top, rng.randrange(0x800, 0xd800)),
                                min(top, rng.randrange(0xe000, 0x10000)),
                                min(top, rng.randrange(0x10000, 0x110000))])

            out.append(chr(c))

        return ''.join(out)

    def gen_datetime(self, year_lo, year_hi, micro, tz):
        rng = self.rng
        tzinfo = None

        if tz:
            tzinfo = rng.choice([
                datetime.timezone.utc,
                datetime.timezone(datetime.timedelta(hours=2)),
                datetime.timezone(datetime.timedelta(hours=-5, minutes=-30))])

        return datetime.datetime(rng.randint(year_lo, year_hi),
                                 rng.randint(1, 12),
                                 rng.randint(1, 28),
                                 rng.randint(0, 23),
                                 rng.randint(0, 59),
                                 rng.choice([0, rng.randint(0, 59)]),
                                 rng.choice([500000, 123000, 1]) if micro else 0,
                                 tzinfo)

    def expand_members(self, members, module_name, _depth=0):
        """COMPONENTS OF expansion on the un-preprocessed dict (the library
        does the same on its own copy).  Returns list of (member, module)."""

        result = []

        for member in members:
            if member is EXT:
                result.append((EXT, module_name))
            elif isinstance(member, list):
                result.append(([m for m in member], module_name))
            elif 'components-of' in member:
                if _depth > 10:
                    raise Unsupported('components-of loop')

                desc, inner_module = self.lookup('types',
                                                 member['components-of'],
                                                 module_name)
                desc, inner_module, _ = self.resolve(desc, inner_module)

                for inner, mod in self.expand_members(desc['members'],
                                                      inner_module,
                                                      _depth + 1):
                    if inner is EXT:
                        break

                    result.append((inner, mod))
            else:
                result.append((member, module_name))

        return result

    def gen_members(self, resolved, module_name, depth):
        rng = self.rng
        value = {}
        in_additions = False
        deep = depth >= self.max_depth
        skip_rest = False

        for member, member_module in self.expand_members(resolved['members'],
                                                         module_name):
            if member is EXT:
                in_additions = not in_additions or True

                continue

            if skip_rest:
                continue

            if isinstance(member, list):
                # Addition group: all or nothing.
                if (not self.absent_additions
                        or rng.random() < (0.2 if deep else 0.6)):
                    for inner in member:
                        self.gen_member(inner, member_module, depth, value,
                                        deep)
                elif rng.random() < 0.5:
                    skip_rest = True

                continue

            if (in_additions and self.absent_additions
                    and rng.random() < (0.7 if deep else 0.35)):
                # Additions may be absent (older version of the sender);
                # later ones are then usually absent too.
                if rng.random() < 0.7:
                    skip_rest = True

                continue

            self.gen_member(member, member_module, depth, value, deep)

        return value

    def gen_member(self, member, module_name, depth, value, deep):
        rng = self.rng

        if member.get('optional'):
            if rng.random() < (0.85 if deep else 0.4):
                return
        elif 'default' in member:
            if rng.random() < (0.85 if deep else 0.4):
                return

        value[member['name']] = self.gen(member, module_name, depth + 1)

    def gen_choice(self, resolved, module_name, depth):
        rng = self.rng
        root = []
        additions = []
        target = root

        for member in resolved['members']:
            if member is EXT:
                target = additions
                continue

            if isinstance(member, list):
                target.extend(member)
            else:
                target.append(member)

        if depth >= self.max_depth:
            member = root[0]
        elif additions and rng.random() < self.addition_bias:
            member = rng.choice(additions)
        else:
            member = rng.choice(root)

        return (member['name'], self.gen(member, module_name, depth + 1))

    def gen_list(self, resolved, chain, module_name, depth):
        rng = self.rng

        if depth >= self.max_depth:
            size = self.first(chain, 'size')
            length = 0

            if size is not None:
                root, _ = self.ranges(size, module_name, chain)

                if root and root[0][0]:
                    length = int(root[0][0])
        else:
            length = self.pick_length(chain, module_name)

            if length > 40 and not self.big:
                length = rng.choice([0, 1, 2, 3])

            if length > 300:
                length = 300

        return [self.gen(resolved['element'], module_name, depth + 1)
                for _ in range(length)]


STRINGS = {'IA5String', 'PrintableString', 'NumericString', 'VisibleString',
           'UTF8String', 'BMPString', 'UniversalString', 'GeneralString',
           'TeletexString', 'GraphicString', 'ObjectDescriptor'}
KNOWN = STRINGS | {'BOOLEAN', 'INTEGER', 'REAL', 'NULL', 'ENUMERATED',
                   'BIT STRING', 'OCTET STRING', 'OBJECT IDENTIFIER',
                   'UTCTime', 'GeneralizedTime', 'DATE', 'TIME-OF-DAY',
                   'DATE-TIME', 'SEQUENCE', 'SET', 'CHOICE', 'SEQUENCE OF',
                   'SET OF', 'ANY', 'ANY DEFINED BY', 'EXTERNAL'}


# -- single-point corruption of a value -------------------------------------

def _paths(value, path, out):
    out.append(path)

    if isinstance(value, dict):
        for key in value:
            _paths(value[key], path + [key], out)
    elif isinstance(value, list):
        for index, item in enumerate(value):
            _paths(item, path + [index], out)
    elif (isinstance(value, tuple) and len(value) == 2
          and isinstance(value[0], str)):
        _paths(value[1], path + [1], out)


def _replace(value, path, fn):
    if not path:
        return fn(value)

    head = path[0]

    if isinstance(value, dict):
        result = dict(value)
        result[head] = _replace(value[head], path[1:], fn)

        return result
    elif isinstance(value, list):
        result = list(value)
        result[head] = _replace(value[head], path[1:], fn)

        return result
    elif isinstance(value, tuple):
        result = list(value)
        result[head] = _replace(value[head], path[1:], fn)

        return tuple(result)

    return fn(value)


def corrupt(value, rng):
    """Returns a copy of value with one node replaced by something of the
    wrong type / an unknown name / an absent mandatory member.  Prefers deep
    nodes, so that encoding fails part-way through a nested structure."""

    paths = []
    _paths(value, [], paths)
    longest = max(len(p) for p in paths)
    deep = [p for p in paths if len(p) >= max(0, longest - 1)]
    path = rng.choice(deep if rng.random() < 0.7 else paths)

    def mutate(node):
        if isinstance(node, bool):
            return rng.choice(['x', 2, None, b'\x01'])
        elif isinstance(node, int):
            return rng.choice(['1', 1.5, None, [node], node + 2 ** 200,
                               -node - 10 ** 30])
        elif isinstance(node, float):
            return rng.choice(['1.0', None, b''])
        elif isinstance(node, str):
            return rng.choice([5, b'abc', None, node + '\udc80-no-such',
                               'no-such-enumerator-xyz'])
        elif isinstance(node, bytes):
            return rng.choice(['abc', 7, None, [1, 2]])
        elif isinstance(node, dict):
            if node and rng.random() < 0.6:
                result = dict(node)
                del result[rng.choice(sorted(result))]

                return result

            return rng.choice([[], 5, None, 'x'])
        elif isinstance(node, list):
            if rng.random() < 0.5:
                return list(node) + [{'unexpected-key-xyz': 1.25}]

            return rng.choice([5, None, 'x', {}])
        elif isinstance(node, tuple):
            if len(node) == 2 and isinstance(node[0], str):
                return rng.choice([('no-such-alternative', node[1]),
                                   (node[0],), 5, None])

            return rng.choice([node[:1], 5, None, (b'\x00', 'x'),
                               (node[0], -1)])
        elif node is None:
            return rng.choice([5, 'x', {}])

        return 5

    return _replace(value, path, mutate)
