"""One integer decides everything (DESIGN 2.1).

mix() is a keyed hash of its arguments' reprs, independent of PYTHONHASHSEED,
of time and of the process.  Every stream of a run is a random.Random seeded
from mix(run_seed, name).
"""

import hashlib
import random


def mix(*parts):
    h = hashlib.blake2b(digest_size=8)

    for part in parts:
        h.update(repr(part).encode('utf-8'))
        h.update(b'\x1f')

    return int.from_bytes(h.digest(), 'big')


def stream(run_seed, name):
    return random.Random(mix(run_seed, name))


class Streams(object):
    """Named independent streams of one run."""

    def __init__(self, run_seed):
        self.run_seed = run_seed
        self._streams = {}

    def __getitem__(self, name):
        try:
            return self._streams[name]
        except KeyError:
            self._streams[name] = stream(self.run_seed, name)

            return self._streams[name]


def weighted(rng, pairs):
    """pairs: [(weight, item), ...]"""

    total = sum(w for w, _ in pairs)
    x = rng.random() * total

    for w, item in pairs:
        x -= w

        if x < 0:
            return item

    return pairs[-1][1]
