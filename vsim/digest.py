"""Behaviour digest of a compiled Specification (DESIGN 2.7).

A ProbeSet is derived from a *fresh parse* of the module text and a seed only
(never from the object under test); applying it to a Specification yields a
list of canonical outcome strings.  Two specifications "behave the same" on
the probe set iff the lists are equal.
"""

import random

from . import steps
from .rng import mix
from .ser import canon_outcome, ser
from .valgen import ValGen, Unsupported, corrupt
from . import wire

BUDGET = 400000
TEXT_CODECS = ('jer', 'xer', 'gser')


class ProbeSet(object):

    def __init__(self, parsed, seed, codec, numeric_enums=False, k=2,
                 max_types=12, extra=()):
        rng = random.Random(mix(seed, 'probes', codec, numeric_enums))
        gen = ValGen(parsed, rng, numeric_enums=numeric_enums, max_depth=3,
                     absent_additions=codec not in TEXT_CODECS)
        self.codec = codec
        self.probes = []   # (type_name, kind, value)
        self.faults = {}   # probe index -> channel fault descriptors
        fault_rng = random.Random(mix(seed, 'probe-faults', codec))
        types = sorted(gen.top_types(), key=lambda mt: mt[1])

        if len(types) > max_types:
            rng.shuffle(types)
            types = sorted(types[:max_types], key=lambda mt: mt[1])

        for module_name, type_name in types:
            values = []

            for _ in range(k):
                try:
                    values.append(gen.value(module_name, type_name))
                except Unsupported:
                    break

            for value in values:
                self.probes.append((type_name, 'valid', value))

            if values and codec != 'gser':
                # How lenient the decoder is belongs to its behaviour: the
                # first value's encoding also goes through two seeded
                # channel faults.
                self.faults[len(self.probes) - len(values)] = [
                    wire.draw_fault(fault_rng, codec, 1.0) for _ in range(2)]

            if values:
                self.probes.append((type_name, 'corrupt',
                                    corrupt(values[0], rng)))

        # Hand-written probes: (type_name, value) encoded with constraint
        # checking on.
        for type_name, value in extra:
            self.probes.append((type_name, 'extra', value))

    def apply(self, spec, budget=BUDGET):
        """Returns list of outcome strings, one or more per probe."""

        out = []

        for index, (type_name, kind, value) in enumerate(self.probes):
            if kind == 'extra':
                outcome, _ = steps.call(
                    lambda: spec.encode(type_name, value,
                                        check_constraints=True), budget)
                out.append('{}:x:{}'.format(type_name,
                                            canon_outcome(outcome)))

                if outcome[0] == 'ok' and self.codec != 'gser':
                    encoded = outcome[1]
                    outcome, _ = steps.call(
                        lambda: spec.decode(type_name, encoded), budget)
                    out.append('{}:xd:{}'.format(type_name,
                                                 canon_outcome(outcome)))

                continue

            if kind == 'corrupt':
                outcome, _ = steps.call(
                    lambda: spec.encode(type_name, value, check_types=True,
                                        check_constraints=True), budget)
                out.append('{}:c:{}'.format(type_name,
                                            canon_outcome(outcome)))
                continue

            outcome, _ = steps.call(lambda: spec.encode(type_name, value),
                                    budget)
            out.append('{}:e:{}'.format(type_name, canon_outcome(outcome)))

            if outcome[0] != 'ok' or self.codec == 'gser':
                continue

            encoded = outcome[1]
            outcome, _ = steps.call(lambda: spec.decode(type_name, encoded),
                                    budget)
            out.append('{}:d:{}'.format(type_name, canon_outcome(outcome)))

            # One fixed malformed input derived from the valid one.
            if len(encoded) > 1:
                bad = bytes([encoded[0] ^ 0x55]) + encoded[1:-1]
                outcome, _ = steps.call(
                    lambda: spec.decode(type_name, bad,
                                        check_constraints=True),
                    budget)
                out.append('{}:m:{}'.format(type_name,
                                            canon_outcome(outcome)))

            for number, fault in enumerate(self.faults.get(index, ())):
                if len(encoded) > 2048:
                    break

                bad = wire.mutate(encoded, fault, encoded[::-1])
                outcome, _ = steps.call(
                    lambda: spec.decode(type_name, bad,
                                        check_constraints=True),
                    budget)
                out.append('{}:f{}:{}'.format(type_name, number,
                                              canon_outcome(outcome)[:400]))

            if self.codec in ('ber', 'der'):
                for cut in (1, len(encoded)):
                    outcome, _ = steps.call(
                        lambda: spec.decode_length(encoded[:cut]), budget)
                    out.append('{}:l{}:{}'.format(type_name, cut,
                                                  canon_outcome(outcome)))

        return out

    def sample(self):
        return [[type_name, kind, ser(value)]
                for type_name, kind, value in self.probes[:3]]


def first_difference(a, b):
    for index, (x, y) in enumerate(zip(a, b)):
        if x != y:
            return index, x, y

    if len(a) != len(b):
        return min(len(a), len(b)), None, None

    return None
