"""Simulated transport (DESIGN 2.4): the byte channel between a sender node
(real encoder) and a receiver node (real decoder).  The channel is a stub
owned by the simulator; every fault it injects is an explicit, JSON-able
descriptor so that `mutate(data, fault, other)` is a pure function.
"""

import random

BYTE_SUBS = [0x00, 0x7f, 0x80, 0xff, 0xc1, 0xc2, 0xc3, 0xc4, 0x30, 0x31,
             0xa0, 0x1f, 0x3f, 0x81, 0x82, 0x84, 0x88]

GENERIC_KINDS = ['cut', 'flip', 'flip', 'insert', 'delete', 'dup-range',
                 'splice', 'garbage', 'byte-sub', 'byte-sub', 'first64',
                 'first64', 'append', 'byte-small', 'block-repeat',
                 'lp-replace']

# Contents that are small as octets and huge as numbers: character-encoded
# REALs (ISO 6093 NR1-NR3 behind their form octet) with long exponents or
# digit runs, plain digit strings.
TOKENS = [b'\x03' + b'1.E999999999', b'\x03' + b'1.E-999999999',
          b'\x03' + b'9.9E99999999', b'\x02' + b'1.' + b'0' * 12,
          b'\x01' + b'9' * 14, b'\x03' + b'-1.E+999999999',
          b'999999999999', b'1E999999999', b'\x03' + b'1,E999999999']
BER_KINDS = ['retag', 'len+1', 'len-1', 'len0', 'len-indef', 'len-huge',
             'drop-node', 'dup-node', 'swap-nodes', 'inject-eoc',
             'len-long-form', 'wrap-constructed', 'retag-indef',
             'retag-indef', 'node-drop-fix', 'node-drop-fix', 'node-dup-fix',
             'node-swap-fix', 'node-token-fix', 'node-nest-fix']
TEXT_KINDS = ['text-delete', 'text-dup', 'text-nest', 'text-swapcase',
              'text-number', 'tree-dup', 'tree-dup', 'tree-drop',
              'tree-swap', 'tree-move']


# -- BER TLV walker (harness side, tolerant) ---------------------------------

def tlv_nodes(data, offset=0, end=None, depth=0, out=None, limit=400):
    """Walks a (valid, definite-length) BER encoding and returns the list of
    nodes: dict(off, tag_len, len_len, content, length, end, constructed,
    depth, parent)."""

    if out is None:
        out = []

    if end is None:
        end = len(data)

    while offset < end and len(out) < limit:
        start = offset

        try:
            first = data[offset]
            offset += 1

            if first & 0x1f == 0x1f:
                while data[offset] & 0x80:
                    offset += 1

                offset += 1

            tag_len = offset - start
            length_byte = data[offset]
            offset += 1

            if length_byte & 0x80:
                count = length_byte & 0x7f

                if count == 0:
                    return out

                length = int.from_bytes(data[offset:offset + count], 'big')
                offset += count
            else:
                length = length_byte
        except IndexError:
            return out

        content = offset
        node_end = content + length

        if node_end > end:
            return out

        node = {'off': start, 'tag_len': tag_len,
                'len_len': content - start - tag_len,
                'content': content, 'length': length, 'end': node_end,
                'constructed': bool(first & 0x20), 'depth': depth}
        out.append(node)

        if first & 0x20:
            tlv_nodes(data, content, node_end, depth + 1, out, limit)

        offset = node_end

    return out


def encode_length(length):
    if length <= 127:
        return bytes([length])

    body = length.to_bytes((length.bit_length() + 7) // 8, 'big')

    return bytes([0x80 | len(body)]) + body


def encode_tag(cls_flags, number):
    if number < 31:
        return bytes([cls_flags | number])

    out = [number & 0x7f]
    number >>= 7

    while number:
        out.append(0x80 | (number & 0x7f))
        number >>= 7

    return bytes([cls_flags | 0x1f] + out[::-1])


# -- fault descriptors --------------------------------------------------------

def draw_fault(rng, codec, p_fault=0.7):
    """Draws an explicit fault descriptor."""

    if rng.random() >= p_fault:
        return {'kind': 'none'}

    kinds = list(GENERIC_KINDS)

    if codec in ('ber', 'der'):
        kinds += BER_KINDS * 2
    elif codec in ('jer', 'xer'):
        kinds += TEXT_KINDS * 2

    if rng.random() < 0.2:
        # Two or three recipes applied one after the other.
        parts = []

        for _ in range(rng.choice([2, 2, 3])):
            part = {'kind': rng.choice(kinds), 'seed': rng.getrandbits(32)}
            _fill(part, rng)
            parts.append(part)

        return {'kind': 'multi', 'parts': parts}

    kind = rng.choice(kinds)
    fault = {'kind': kind, 'seed': rng.getrandbits(32)}
    _fill(fault, rng)

    return fault


def _fill(fault, rng):
    kind = fault['kind']

    if kind == 'garbage':
        fault['n'] = rng.choice([0, 1, 2, 3, 8, 64, 512, 4096])
    elif kind == 'flip':
        fault['count'] = rng.choice([1, 1, 1, 2, 3, 8])


def mutate(data, fault, other=b''):
    """Pure function: (valid encoding, fault descriptor, another valid
    encoding) -> delivered bytes."""

    kind = fault['kind']

    if kind == 'none':
        return bytes(data)

    if kind == 'raw':
        return bytes.fromhex(fault['data'])

    if kind == 'multi':
        for part in fault['parts']:
            data = mutate(data, part, other)

        return bytes(data)

    rng = random.Random(fault.get('seed', 0))
    data = bytearray(data)
    n = len(data)

    if kind == 'cut':
        return bytes(data[:rng.randrange(n)]) if n else b''
    elif kind == 'flip':
        for _ in range(fault.get('count', 1)):
            if n:
                bit = rng.randrange(8 * n)
                data[bit // 8] ^= 0x80 >> (bit % 8)

        return bytes(data)
    elif kind == 'first64':
        if n:
            bit = rng.randrange(min(64, 8 * n))
            data[bit // 8] ^= 0x80 >> (bit % 8)

        return bytes(data)
    elif kind == 'byte-sub':
        if n:
            pos = rng.randrange(min(n, 12)) if rng.random() < 0.5 \
                else rng.randrange(n)
            data[pos] = rng.choice(BYTE_SUBS)

        return bytes(data)
    elif kind == 'byte-small':
        # Counts and length determinants of PER/OER are small numbers
        # anywhere in the message: one becomes another small number, or
        # moves by one.
        if n:
            pos = rng.randrange(n)
            data[pos] = rng.choice([rng.randrange(0, 17),
                                    (data[pos] + 1) & 0xff,
                                    (data[pos] - 1) & 0xff,
                                    data[pos] & 0xf0, data[pos] | 0x0f])

        return bytes(data)
    elif kind == 'lp-replace':
        # A length-prefixed field (one octet n <= 24 followed by n octets)
        # is replaced by [len(token)] + token.
        spots = [i for i in range(n) if data[i] <= 24
                 and i + 1 + data[i] <= n]

        if spots:
            pos = rng.choice(spots)
            token = rng.choice(TOKENS)
            data[pos:pos + 1 + data[pos]] = bytes([len(token)]) + token

        return bytes(data)
    elif kind == 'block-repeat':
        # Self-similar growth: a short block is repeated right behind
        # itself, optionally with one of its octets moved by one (nested
        # counts / lengths that differ by one per level).
        if n:
            size = rng.choice([2, 3, 3, 4, 6, 8, 12, 16])
            pos = rng.randrange(max(1, n - size + 1))
            block = bytearray(data[pos:pos + size])

            if rng.random() < 0.5:
                at = rng.randrange(len(block))
                block[at] = (block[at] + rng.choice([1, -1])) & 0xff

            where = pos if rng.random() < 0.5 else pos + size
            data[where:where] = block * rng.choice([1, 1, 2])

        return bytes(data)
    elif kind == 'insert':
        pos = rng.randrange(n + 1)
        blob = bytes(rng.choice(BYTE_SUBS + [rng.randrange(256)])
                     for _ in range(rng.choice([1, 1, 2, 4, 16])))

        return bytes(data[:pos] + blob + data[pos:])
    elif kind == 'append':
        blob = bytes(rng.randrange(256)
                     for _ in range(rng.choice([1, 2, 8, 100])))

        return bytes(data) + blob
    elif kind == 'delete':
        if n:
            pos = rng.randrange(n)
            count = rng.choice([1, 1, 2, 4, 16])
            del data[pos:pos + count]

        return bytes(data)
    elif kind == 'dup-range':
        if n:
            pos = rng.randrange(n)
            count = rng.choice([1, 2, 4, 16, 64])
            data[pos:pos] = data[pos:pos + count]

        return bytes(data)
    elif kind == 'splice':
        a = rng.randrange(n + 1)
        b = rng.randrange(len(other) + 1)

        return bytes(data[:a]) + bytes(other[b:])
    elif kind == 'garbage':
        return bytes(rng.randrange(256) for _ in range(fault['n']))
    elif kind in BER_KINDS:
        return mutate_ber(data, kind, rng)
    elif kind in TEXT_KINDS:
        return mutate_text(data, kind, rng)

    raise ValueError('unknown fault kind ' + kind)


def _rebuild(data, node, new_tag=None, new_len_bytes=None, new_content=None):
    tag = bytes(data[node['off']:node['off'] + node['tag_len']])
    length_bytes = bytes(data[node['off'] + node['tag_len']:node['content']])
    content = bytes(data[node['content']:node['end']])

    if new_tag is not None:
        tag = new_tag

    if new_content is not None:
        content = new_content

        if new_len_bytes is None:
            new_len_bytes = length_bytes

    if new_len_bytes is not None:
        length_bytes = new_len_bytes

    return bytes(data[:node['off']]) + tag + length_bytes + content \
        + bytes(data[node['end']:])


def _ber_tree(data, offset, end, stop_at_eoc=False):
    """[[tag bytes, children list | content bytes, indefinite?]] of a BER
    encoding (definite and indefinite lengths); None if it does not parse
    cleanly.  With stop_at_eoc returns (items, offset after 00 00)."""

    items = []

    while offset < end:
        start = offset

        if stop_at_eoc and bytes(data[offset:offset + 2]) == b'\x00\x00':
            return items, offset + 2

        try:
            first = data[offset]
            offset += 1

            if first & 0x1f == 0x1f:
                while data[offset] & 0x80:
                    offset += 1

                offset += 1

            tag = bytes(data[start:offset])
            length_byte = data[offset]
            offset += 1
            length = None

            if length_byte == 0x80:
                if not first & 0x20:
                    return None
            elif length_byte & 0x80:
                count = length_byte & 0x7f
                length = int.from_bytes(data[offset:offset + count], 'big')
                offset += count
            else:
                length = length_byte
        except IndexError:
            return None

        if length is None:
            inner = _ber_tree(data, offset, end, stop_at_eoc=True)

            if inner is None:
                return None

            body, offset = inner
            items.append([tag, body, True])

            continue

        if offset + length > end:
            return None

        body = None

        if first & 0x20:
            body = _ber_tree(data, offset, offset + length)

        if body is None:
            body = bytes(data[offset:offset + length])

        items.append([tag, body, False])
        offset += length

    if stop_at_eoc:
        return None     # ran out of data before the end-of-contents octets

    return items


def _ber_serialise(items):
    out = bytearray()

    for item in items:
        tag, body = item[0], item[1]
        content = _ber_serialise(body) if isinstance(body, list) else body

        if len(item) > 2 and item[2]:
            out += tag + b'\x80' + content + b'\x00\x00'
        else:
            out += tag + encode_length(len(content)) + content

    return bytes(out)


def mutate_ber_consistent(data, kind, rng):
    """An element dropped, duplicated or swapped with its neighbour, and
    ALL enclosing lengths recomputed: a well-formed encoding of something
    else (a missing mandatory member, a member twice, members out of
    order), so that the decoder fails - or not - deep inside."""

    tree = _ber_tree(data, 0, len(data))

    if not tree:
        return bytes(data)

    lists = []

    def collect(items):
        if items:
            lists.append(items)

        for item in items:
            if isinstance(item[1], list):
                collect(item[1])

    collect(tree)

    if kind == 'node-nest-fix':
        # An element (typically a primitive string) becomes the only
        # segment of a constructed element of the same tag, in indefinite
        # or definite form: valid BER for string types, and nestable.
        items = rng.choice(lists)
        index = rng.randrange(len(items))
        item = items[index]
        tag = bytes([item[0][0] | 0x20]) + item[0][1:]
        items[index] = [tag, [item], rng.random() < 0.7]

        return _ber_serialise(tree)

    # (Not the outermost list: that would drop the message itself.)
    lists = [items for items in lists if items is not tree] or lists
    items = rng.choice(lists)
    index = rng.randrange(len(items))

    if kind == 'node-token-fix':
        # The contents of a primitive element become a token (enclosing
        # lengths recomputed).
        primitive = [item for items_ in lists for item in items_
                     if not isinstance(item[1], list)]

        if primitive:
            rng.choice(primitive)[1] = rng.choice(TOKENS)
    elif kind == 'node-drop-fix':
        del items[index]
    elif kind == 'node-dup-fix':
        items.insert(index, items[index])
    elif len(items) > 1:
        other = (index + 1) % len(items)
        items[index], items[other] = items[other], items[index]

    return _ber_serialise(tree)


def mutate_ber(data, kind, rng):
    if kind.endswith('-fix'):
        return mutate_ber_consistent(data, kind, rng)

    nodes = tlv_nodes(data)

    if not nodes:
        return bytes(data)

    # Prefer inner nodes: the outer TLV is what unit tests tamper with.
    inner = [n for n in nodes if n['depth'] > 0]
    node = rng.choice(inner if inner and rng.random() < 0.8 else nodes)
    length = node['length']

    if kind == 'retag':
        first = data[node['off']]
        choice = rng.random()

        if choice < 0.4:
            new_tag = bytes([first ^ rng.choice([0x01, 0x02, 0x20, 0x40,
                                                 0x80, 0x1f])]) \
                + bytes(data[node['off'] + 1:node['off'] + node['tag_len']])
        elif choice < 0.7:
            new_tag = encode_tag(first & 0xe0,
                                 rng.choice([0, 1, 2, 4, 5, 16, 17, 30, 31,
                                             127, 128, 2 ** 28]))
        else:
            other = rng.choice(nodes)
            new_tag = bytes(data[other['off']:other['off']
                                 + other['tag_len']])

        return _rebuild(data, node, new_tag=new_tag)
    elif kind == 'retag-indef':
        # Unknown tag AND indefinite length, usually without end-of-contents
        # octets (an unknown extension addition / alternative that a skipping
        # decoder has to find the end of).
        first = data[node['off']]
        new_tag = encode_tag(rng.choice([0x80, 0xa0, first & 0xe0, 0xc0]),
                             rng.choice([5, 7, 13, 29, 30, 31, 200]))
        content = bytes(data[node['content']:node['end']])

        if rng.random() < 0.6:
            content = content.replace(b'\x00\x00', b'\x00\x01')

        tail = b'\x00\x00' if rng.random() < 0.3 else b''
        rest = bytes(data[node['end']:])

        if rng.random() < 0.5:
            rest = rest.replace(b'\x00\x00', b'\x01\x00')

        return bytes(data[:node['off']]) + new_tag + b'\x80' + content \
            + tail + rest
    elif kind == 'len+1':
        return _rebuild(data, node, new_len_bytes=encode_length(length + 1))
    elif kind == 'len-1':
        return _rebuild(data, node,
                        new_len_bytes=encode_length(max(0, length - 1)))
    elif kind == 'len0':
        return _rebuild(data, node, new_len_bytes=b'\x00')
    elif kind == 'len-indef':
        tail = b'\x00\x00' if rng.random() < 0.5 else b''

        return _rebuild(data, node, new_len_bytes=b'\x80',
                        new_content=bytes(data[node['content']:node['end']])
                        + tail)
    elif kind == 'len-huge':
        return _rebuild(data, node, new_len_bytes=rng.choice(
            [b'\x84\x80\x00\x00\x00', b'\x84\x7f\xff\xff\xff',
             b'\x88' + b'\xff' * 8, b'\xff', b'\x81\xff',
             b'\x83\x01\x00\x00']))
    elif kind == 'len-long-form':
        body = length.to_bytes(max(1, (length.bit_length() + 7) // 8), 'big')
        pad = rng.choice([0, 1, 3])
        body = b'\x00' * pad + body

        return _rebuild(data, node,
                        new_len_bytes=bytes([0x80 | len(body)]) + body)
    elif kind == 'drop-node':
        return bytes(data[:node['off']]) + bytes(data[node['end']:])
    elif kind == 'dup-node':
        blob = bytes(data[node['off']:node['end']])

        return bytes(data[:node['end']]) + blob + bytes(data[node['end']:])
    elif kind == 'swap-nodes':
        siblings = [m for m in nodes
                    if m['depth'] == node['depth'] and m is not node
                    and (m['end'] <= node['off'] or m['off'] >= node['end'])]

        if not siblings:
            return bytes(data)

        other = rng.choice(siblings)
        a, b = sorted([node, other], key=lambda m: m['off'])

        return (bytes(data[:a['off']]) + bytes(data[b['off']:b['end']])
                + bytes(data[a['end']:b['off']])
                + bytes(data[a['off']:a['end']]) + bytes(data[b['end']:]))
    elif kind == 'inject-eoc':
        pos = rng.choice([node['content'], node['end'],
                          node['content'] + rng.randrange(length + 1)])

        return bytes(data[:pos]) + b'\x00\x00' + bytes(data[pos:])
    elif kind == 'wrap-constructed':
        # Re-encode a primitive string-ish node in constructed form with an
        # element of a foreign tag.
        first = data[node['off']] | 0x20
        tag = bytes([first]) + bytes(
            data[node['off'] + 1:node['off'] + node['tag_len']])
        inner_tag = rng.choice([b'\x04', b'\x03', b'\x02', b'\x05', b'\x0c'])
        content = bytes(data[node['content']:node['end']])
        inner = inner_tag + encode_length(len(content)) + content

        return _rebuild(data, node, new_tag=tag,
                        new_len_bytes=encode_length(len(inner)),
                        new_content=inner)

    return bytes(data)


def text_spans(data):
    """Spans (start, end) of the sub-trees of a JSON or XML document: XML
    elements `<t>...</t>` / `<t/>`, JSON members `"k": value` and array
    items.  Tolerant, harness-side, for valid encoder output."""

    text = bytes(data)
    spans = []

    if text.lstrip()[:1] == b'<':
        stack = []
        index = 0

        while index < len(text):
            if text[index:index + 1] != b'<':
                index += 1
                continue

            close = text.find(b'>', index)

            if close < 0:
                break

            tag = text[index + 1:close]

            if tag.startswith(b'/'):
                if stack:
                    spans.append((stack.pop(), close + 1))
            elif tag.endswith(b'/'):
                spans.append((index, close + 1))
            elif not tag.startswith((b'?', b'!')):
                stack.append(index)

            index = close + 1

        return [s for s in spans if s != (0, len(text))]

    # JSON: members and array items at every nesting level.
    def value_end(i):
        while i < len(text) and text[i:i + 1] in b' \t\r\n':
            i += 1

        if i >= len(text):
            return i

        c = text[i:i + 1]

        if c == b'"':
            i += 1

            while i < len(text) and text[i:i + 1] != b'"':
                i += 2 if text[i:i + 1] == b'\\' else 1

            return i + 1

        if c in b'{[':
            closer = b'}' if c == b'{' else b']'
            i += 1

            while i < len(text):
                while i < len(text) and text[i:i + 1] in b' \t\r\n,':
                    i += 1

                if text[i:i + 1] == closer:
                    return i + 1

                start = i

                if c == b'{':
                    i = value_end(i)            # key

                    while i < len(text) and text[i:i + 1] in b' \t\r\n:':
                        i += 1

                i = value_end(i)                # value / item
                spans.append((start, i))

                if i <= start:
                    return len(text)

            return i

        while i < len(text) and text[i:i + 1] not in b',}] \t\r\n':
            i += 1

        return i

    try:
        value_end(0)
    except RecursionError:
        return []

    return spans


def mutate_tree(data, kind, rng):
    """Structure-aware edits of a JSON / XML document: duplicate, drop,
    swap or move a whole element / member."""

    spans = text_spans(data)
    text = bytes(data)

    if not spans:
        return text

    is_xml = text.lstrip()[:1] == b'<'
    separator = b'' if is_xml else b','
    start, end = rng.choice(spans)
    piece = text[start:end]

    if kind == 'tree-dup':
        copies = rng.choice([1, 1, 1, 2, 40])

        return text[:end] + (separator + piece) * copies + text[end:]
    elif kind == 'tree-drop':
        return text[:start] + text[end:]
    elif kind == 'tree-swap':
        others = [s for s in spans
                  if s[1] <= start or s[0] >= end]

        if not others:
            return text

        a, b = sorted([(start, end), rng.choice(others)])

        return (text[:a[0]] + text[b[0]:b[1]] + text[a[1]:b[0]]
                + text[a[0]:a[1]] + text[b[1]:])
    elif kind == 'tree-move':
        others = [s for s in spans if s[1] <= start or s[0] >= end]

        if not others:
            return text

        target = rng.choice(others)[1]
        removed = text[:start] + text[end:]

        if target > start:
            target -= end - start

        return removed[:target] + separator + piece + removed[target:]

    return text


def mutate_text(data, kind, rng):
    n = len(data)

    if n == 0:
        return bytes(data)

    if kind.startswith('tree-'):
        return mutate_tree(data, kind, rng)

    structural = [i for i, c in enumerate(data) if c in b'{}[]<>/":,']

    if kind == 'text-delete':
        pos = rng.choice(structural) if structural else rng.randrange(n)
        del data[pos]

        return bytes(data)
    elif kind == 'text-dup':
        pos = rng.choice(structural) if structural else rng.randrange(n)
        data[pos:pos] = data[pos:pos + 1] * rng.choice([1, 2, 50])

        return bytes(data)
    elif kind == 'text-nest':
        depth = rng.choice([10, 200, 2000])
        opener, closer = rng.choice([(b'[', b']'), (b'{"a":', b'}'),
                                     (b'<a>', b'</a>')])

        return opener * depth + bytes(data) + closer * depth
    elif kind == 'text-swapcase':
        pos = rng.randrange(n)
        data[pos:pos + 8] = bytes(data[pos:pos + 8]).swapcase()

        return bytes(data)
    elif kind == 'text-number':
        digits = [i for i, c in enumerate(data) if c in b'0123456789']

        if digits:
            pos = rng.choice(digits)
            # (The analogue of length-field tampering for text codecs:
            # magnitudes and exponents far beyond what the text is long.)
            data[pos:pos + 1] = rng.choice([b'9' * 400, b'-', b'1e999',
                                            b'0x', b'NaN', b'',
                                            b'99999999', b'999999999',
                                            b'1E999999999', b'1e-999999999',
                                            b'9' * 20, b'9' * 5000,
                                            b'0' * 3000 + b'1',
                                            b'.' + b'0' * 3000 + b'1'])

        return bytes(data)

    return bytes(data)


# -- stream segmentation -------------------------------------------------------

def draw_segmentation(rng, total):
    """Returns the list of segment lengths that deliver `total` bytes."""

    mode = rng.choice(['dribble', 'mss', 'random', 'random', 'whole',
                       'two'])
    sizes = []
    left = total

    if mode == 'whole':
        return [total] if total else []

    if mode == 'two' and total > 1:
        cut = rng.randrange(1, total)

        return [cut, total - cut]

    while left > 0:
        if mode == 'dribble':
            size = 1
        elif mode == 'mss':
            size = 1460
        else:
            size = rng.choice([1, 1, 2, 3, 5, 7, 64, 1000, 70000])

        size = min(size, left)
        sizes.append(size)
        left -= size

    return sizes


def segments_from(descriptor, total):
    """Pure function: segmentation descriptor -> list of segment sizes.
    descriptor: {'sizes': [...]} (explicit, cycled) or {'seed': n}."""

    if 'sizes' in descriptor:
        sizes = []
        left = total
        index = 0
        pattern = [max(1, int(v)) for v in descriptor['sizes']] or [total]

        while left > 0:
            size = min(left, pattern[index % len(pattern)])
            sizes.append(size)
            left -= size
            index += 1

        return sizes

    return draw_segmentation(random.Random(descriptor['seed']), total)


def append_unknown_addition(message, depth, tlv):
    """Returns `message` with the TLV `tlv` appended at the end of the
    contents of the constructed node found by following the LAST child
    `depth` times from the outermost node (lengths of all enclosing nodes
    adjusted), or None if the encoding has no such constructed node.  This
    is what a sender using a newer version of an extensible type produces."""

    def rebuild(data, level):
        nodes = tlv_nodes(data, limit=4000)

        if not nodes or nodes[0]['off'] != 0 or nodes[0]['end'] != len(data):
            return None

        outer = nodes[0]

        if not outer['constructed']:
            return None

        header_tag = bytes(data[:outer['tag_len']])
        content = bytes(data[outer['content']:outer['end']])

        if level == 0:
            new_content = content + tlv
        else:
            children = [n for n in nodes[1:] if n['depth'] == 1]

            if not children:
                return None

            last = children[-1]
            inner = rebuild(bytes(data[last['off']:last['end']]), level - 1)

            if inner is None:
                return None

            new_content = content[:last['off'] - outer['content']] + inner

        return header_tag + encode_length(len(new_content)) + new_content

    return rebuild(bytes(message), depth)
