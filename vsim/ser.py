"""Serialisation of Python values used by asn1tools to JSON and back (replay
files), and a canonical comparison key that is NaN-safe and distinguishes
bool/int, bytes/bytearray, list/tuple."""

import datetime
import json
import math


def ser(v, sort=False, _stack=None):
    """JSON-able image of v.  Cyclic or absurdly deep values (a broken
    decoder can return them) are cut with a marker instead of recursing
    forever."""

    if v is None or isinstance(v, (bool, str)):
        return v

    if isinstance(v, (list, tuple, dict)):
        if _stack is None:
            _stack = set()

        if id(v) in _stack:
            return {'cycle': True}

        if len(_stack) > 300:
            return {'too-deep': True}

        _stack.add(id(v))

        try:
            return _ser_container(v, sort, _stack)
        finally:
            _stack.discard(id(v))

    return _ser_scalar(v, sort)


def _ser_container(v, sort, _stack):
    if isinstance(v, tuple):
        return {'t': [ser(x, sort, _stack) for x in v]}

    if isinstance(v, list):
        return [ser(x, sort, _stack) for x in v]

    items = [[ser(k, sort, _stack), ser(x, sort, _stack)]
             for k, x in v.items()]

    if sort:
        items.sort(key=lambda kv: json.dumps(kv[0], sort_keys=True))

    return {'d': items}


def _ser_scalar(v, sort):

    if isinstance(v, int):
        if -2 ** 53 < v < 2 ** 53:
            return v

        return {'ih': hex(v)}

    if isinstance(v, float):
        if math.isnan(v):
            return {'f': 'nan'}

        return {'f': repr(v)}

    if isinstance(v, bytes):
        return {'b': v.hex()}

    if isinstance(v, bytearray):
        return {'ba': v.hex()}

    if isinstance(v, (datetime.datetime,
                      datetime.date,
                      datetime.time,
                      datetime.timedelta,
                      datetime.timezone)):
        return {'py': repr(v)}

    if isinstance(v, (set, frozenset)):
        return {'set': sorted((ser(x, sort) for x in v),
                              key=lambda x: json.dumps(x, sort_keys=True))}

    return {'obj': type(v).__module__ + '.' + type(v).__name__,
            'repr': repr(v)[:200]}


def deser(j):
    if j is None or isinstance(j, (bool, str, int)):
        return j

    if isinstance(j, list):
        return [deser(x) for x in j]

    if isinstance(j, dict):
        if 'ih' in j:
            return int(j['ih'], 16)

        if 'f' in j:
            return float(j['f'])

        if 'b' in j:
            return bytes.fromhex(j['b'])

        if 'ba' in j:
            return bytearray.fromhex(j['ba'])

        if 't' in j:
            return tuple(deser(x) for x in j['t'])

        if 'd' in j:
            return {deser(k): deser(x) for k, x in j['d']}

        if 'py' in j:
            return eval(j['py'], {'datetime': datetime})

        if 'set' in j:
            return set(deser(x) for x in j['set'])

        if 'obj' in j:
            return Opaque(j['obj'], j.get('repr'))

    raise ValueError('cannot deserialise {!r}'.format(j))


class Opaque(object):
    """Stand-in for a value that could not be serialised (e.g. a wrong-type
    object handed to encode on purpose)."""

    def __init__(self, name, text):
        self.name = name
        self.text = text

    def __repr__(self):
        return '<Opaque {}>'.format(self.name)

    def __eq__(self, other):
        return isinstance(other, Opaque) and other.name == self.name

    def __hash__(self):
        return hash(self.name)


def canon(v):
    """Canonical comparison key."""

    return json.dumps(ser(v, sort=True), sort_keys=True)


def canon_outcome(outcome):
    """outcome: ['ok', value] | ['err', type, text] | ['hang'] | ['injected']"""

    if outcome[0] == 'ok':
        return 'ok:' + canon(outcome[1])

    if outcome[0] == 'hang':
        return '["hang"]'

    return json.dumps(list(outcome[:3]))


def ser_outcome(outcome):
    if outcome[0] == 'ok':
        return ['ok', ser(outcome[1])]

    return list(outcome)
