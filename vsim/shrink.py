"""Candidate generators for the minimiser (DESIGN 2.8)."""

import copy


def drop_each(items, min_len=0):
    """Yields copies of `items` with one chunk removed (big chunks first)."""

    n = len(items)
    size = n // 2

    while size >= 1:
        for start in range(0, n, size):
            candidate = items[:start] + items[start + size:]

            if len(candidate) >= min_len and len(candidate) < n:
                yield candidate

        size //= 2


def split_top_level(text, sep=','):
    """Splits on `sep` outside any bracket/brace/paren/quote."""

    parts = []
    depth = 0
    current = []
    quote = None

    for ch in text:
        if quote:
            current.append(ch)

            if ch == quote:
                quote = None

            continue

        if ch in '"\'':
            quote = ch
        elif ch in '{([':
            depth += 1
        elif ch in '})]':
            depth -= 1

        if ch == sep and depth == 0:
            parts.append(''.join(current))
            current = []
        else:
            current.append(ch)

    parts.append(''.join(current))

    return parts


def shrink_assignment_text(text):
    """Yields variants of one `Name ::= ...` assignment with one member of
    its outermost `{ ... }` component list removed."""

    open_index = text.find('{')
    close_index = text.rfind('}')

    if open_index < 0 or close_index <= open_index:
        return

    head = text[:open_index + 1]
    tail = text[close_index:]
    members = split_top_level(text[open_index + 1:close_index])

    if len(members) <= 1:
        return

    for index in range(len(members) - 1, -1, -1):
        rest = members[:index] + members[index + 1:]

        yield head + ','.join(rest) + tail


def shrink_spec(spec, keep=()):
    """Yields structured specs with assignments (or whole modules, or single
    members of an assignment) removed."""

    modules = spec['modules']

    # Whole later modules first.
    for index in range(len(modules) - 1, -1, -1):
        if len(modules) > 1:
            candidate = copy.deepcopy(spec)
            del candidate['modules'][index]

            yield candidate

    for mi, module in enumerate(modules):
        assignments = module['assignments']

        for reduced in drop_each(assignments):
            if any(name in keep
                   and name not in [n for n, _ in reduced]
                   for name, _ in assignments):
                continue

            candidate = copy.deepcopy(spec)
            candidate['modules'][mi]['assignments'] = copy.deepcopy(reduced)

            yield candidate

    for mi, module in enumerate(modules):
        for ai, (name, text) in enumerate(module['assignments']):
            for variant in shrink_assignment_text(text):
                candidate = copy.deepcopy(spec)
                candidate['modules'][mi]['assignments'][ai][1] = variant

                yield candidate

    for mi, module in enumerate(modules):
        if module['imports']:
            candidate = copy.deepcopy(spec)
            candidate['modules'][mi]['imports'] = ''

            yield candidate
