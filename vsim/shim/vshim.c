/* vshim - LD_PRELOAD libc interposer: filesystem fault seam for the compile
 * cache simulation (DESIGN 2.5).
 *
 * Once armed with vshim_arm(mode, n, arg, duration, dir) it counts the
 * intercepted calls that touch a file under `dir` and at the n-th such call
 * performs one fault:
 *
 *   mode 0 COUNT  count only
 *   mode 1 KILL   SIGKILL the process before the call is performed
 *   mode 2 TORN   for write-like calls perform the first `arg` bytes (or half
 *                 if arg < 0), then SIGKILL; other calls: as KILL
 *   mode 3 ERR    fail this and the next duration-1 counted calls with
 *                 errno = arg
 *   mode 4 SHORT  write-like call n returns after writing `arg` bytes (short
 *                 count); other calls are performed normally
 *
 * Calls on descriptors / paths outside `dir` are never counted or faulted,
 * so the harness's own pipes and stdio are safe.
 */

#define _GNU_SOURCE
#include <dlfcn.h>
#include <errno.h>
#include <fcntl.h>
#include <signal.h>
#include <stdarg.h>
#include <stdio.h>
#include <string.h>
#include <sys/types.h>
#include <sys/uio.h>
#include <unistd.h>

enum { COUNT = 0, KILL = 1, TORN = 2, ERR = 3, SHORT = 4 };

static int armed = 0;
static int mode = 0;
static long target = 0;
static long argument = 0;
static long duration = 1;
static long counter = 0;
static long fired = 0;
static char directory[1024];
static size_t directory_len = 0;
static long kind_counts[16];

enum { K_WRITE, K_PWRITE, K_WRITEV, K_FSYNC, K_FDATASYNC, K_FTRUNCATE,
       K_RENAME, K_UNLINK, K_OPEN_CREAT, K_LAST };

void
vshim_arm(int new_mode, long n, long arg, long dur, const char *dir)
{
    mode = new_mode;
    target = n;
    argument = arg;
    duration = dur > 0 ? dur : 1;
    counter = 0;
    fired = 0;
    memset(kind_counts, 0, sizeof(kind_counts));
    strncpy(directory, dir, sizeof(directory) - 1);
    directory[sizeof(directory) - 1] = 0;
    directory_len = strlen(directory);
    armed = 1;
}

void
vshim_disarm(void)
{
    armed = 0;
}

long
vshim_count(void)
{
    return counter;
}

long
vshim_fired(void)
{
    return fired;
}

long
vshim_kind_count(int kind)
{
    if (kind < 0 || kind >= K_LAST) {
        return -1;
    }

    return kind_counts[kind];
}

static int
path_matches(const char *path)
{
    return directory_len > 0 && path != NULL
        && strncmp(path, directory, directory_len) == 0;
}

static int
fd_matches(int fd)
{
    char link[64];
    char path[1100];
    ssize_t n;

    snprintf(link, sizeof(link), "/proc/self/fd/%d", fd);
    n = readlink(link, path, sizeof(path) - 1);

    if (n <= 0) {
        return 0;
    }

    path[n] = 0;

    return path_matches(path);
}

/* Returns the action for this call: 0 perform, 1 kill, 2 torn, 3 err,
 * 4 short. */
static int
decide(int kind)
{
    counter++;
    kind_counts[kind]++;

    if (mode == COUNT) {
        return 0;
    }

    if (mode == ERR) {
        if (counter >= target && counter < target + duration) {
            fired++;
            return ERR;
        }

        return 0;
    }

    if (counter == target) {
        fired++;
        return mode;
    }

    return 0;
}

static void
die(void)
{
    kill(getpid(), SIGKILL);

    for (;;) {
        pause();
    }
}

#define REAL(name) \
    static typeof(&name) real = NULL; \
    if (real == NULL) { real = dlsym(RTLD_NEXT, #name); }

ssize_t
write(int fd, const void *buf, size_t count)
{
    REAL(write);

    if (armed && fd_matches(fd)) {
        switch (decide(K_WRITE)) {
        case KILL:
            die();
        case TORN:
            real(fd, buf, argument >= 0 && (size_t)argument < count
                 ? (size_t)argument : count / 2);
            die();
        case ERR:
            errno = (int)argument;
            return -1;
        case SHORT:
            return real(fd, buf, (size_t)argument < count
                        ? (size_t)argument : count);
        }
    }

    return real(fd, buf, count);
}

ssize_t
pwrite(int fd, const void *buf, size_t count, off_t offset)
{
    REAL(pwrite);

    if (armed && fd_matches(fd)) {
        switch (decide(K_PWRITE)) {
        case KILL:
            die();
        case TORN:
            real(fd, buf, argument >= 0 && (size_t)argument < count
                 ? (size_t)argument : count / 2, offset);
            die();
        case ERR:
            errno = (int)argument;
            return -1;
        case SHORT:
            return real(fd, buf, (size_t)argument < count
                        ? (size_t)argument : count, offset);
        }
    }

    return real(fd, buf, count, offset);
}

ssize_t
pwrite64(int fd, const void *buf, size_t count, off64_t offset)
{
    REAL(pwrite64);

    if (armed && fd_matches(fd)) {
        switch (decide(K_PWRITE)) {
        case KILL:
            die();
        case TORN:
            real(fd, buf, argument >= 0 && (size_t)argument < count
                 ? (size_t)argument : count / 2, offset);
            die();
        case ERR:
            errno = (int)argument;
            return -1;
        case SHORT:
            return real(fd, buf, (size_t)argument < count
                        ? (size_t)argument : count, offset);
        }
    }

    return real(fd, buf, count, offset);
}

ssize_t
writev(int fd, const struct iovec *iov, int iovcnt)
{
    REAL(writev);

    if (armed && fd_matches(fd)) {
        switch (decide(K_WRITEV)) {
        case KILL:
        case TORN:
            die();
        case ERR:
            errno = (int)argument;
            return -1;
        }
    }

    return real(fd, iov, iovcnt);
}

int
fsync(int fd)
{
    REAL(fsync);

    if (armed && fd_matches(fd)) {
        switch (decide(K_FSYNC)) {
        case KILL:
        case TORN:
            die();
        case ERR:
            errno = (int)argument;
            return -1;
        }
    }

    return real(fd);
}

int
fdatasync(int fd)
{
    REAL(fdatasync);

    if (armed && fd_matches(fd)) {
        switch (decide(K_FDATASYNC)) {
        case KILL:
        case TORN:
            die();
        case ERR:
            errno = (int)argument;
            return -1;
        }
    }

    return real(fd);
}

int
ftruncate(int fd, off_t length)
{
    REAL(ftruncate);

    if (armed && fd_matches(fd)) {
        switch (decide(K_FTRUNCATE)) {
        case KILL:
        case TORN:
            die();
        case ERR:
            errno = (int)argument;
            return -1;
        }
    }

    return real(fd, length);
}

int
ftruncate64(int fd, off64_t length)
{
    REAL(ftruncate64);

    if (armed && fd_matches(fd)) {
        switch (decide(K_FTRUNCATE)) {
        case KILL:
        case TORN:
            die();
        case ERR:
            errno = (int)argument;
            return -1;
        }
    }

    return real(fd, length);
}

int
rename(const char *oldpath, const char *newpath)
{
    REAL(rename);

    if (armed && (path_matches(oldpath) || path_matches(newpath))) {
        switch (decide(K_RENAME)) {
        case KILL:
        case TORN:
            die();
        case ERR:
            errno = (int)argument;
            return -1;
        }
    }

    return real(oldpath, newpath);
}

int
unlink(const char *path)
{
    REAL(unlink);

    if (armed && path_matches(path)) {
        switch (decide(K_UNLINK)) {
        case KILL:
        case TORN:
            die();
        case ERR:
            errno = (int)argument;
            return -1;
        }
    }

    return real(path);
}

static int
open_common(int kind_is_creat, const char *path)
{
    if (armed && kind_is_creat && path_matches(path)) {
        switch (decide(K_OPEN_CREAT)) {
        case KILL:
        case TORN:
            die();
        case ERR:
            errno = (int)argument;
            return -1;
        }
    }

    return 0;
}

int
open(const char *path, int flags, ...)
{
    REAL(open);
    mode_t m = 0;

    if (flags & (O_CREAT | O_TMPFILE)) {
        va_list ap;

        va_start(ap, flags);
        m = va_arg(ap, mode_t);
        va_end(ap);
    }

    if (open_common(flags & O_CREAT, path) < 0) {
        return -1;
    }

    return real(path, flags, m);
}

int
open64(const char *path, int flags, ...)
{
    REAL(open64);
    mode_t m = 0;

    if (flags & (O_CREAT | O_TMPFILE)) {
        va_list ap;

        va_start(ap, flags);
        m = va_arg(ap, mode_t);
        va_end(ap);
    }

    if (open_common(flags & O_CREAT, path) < 0) {
        return -1;
    }

    return real(path, flags, m);
}

int
openat(int dirfd, const char *path, int flags, ...)
{
    REAL(openat);
    mode_t m = 0;

    if (flags & (O_CREAT | O_TMPFILE)) {
        va_list ap;

        va_start(ap, flags);
        m = va_arg(ap, mode_t);
        va_end(ap);
    }

    if (path != NULL && path[0] == '/'
        && open_common(flags & O_CREAT, path) < 0) {
        return -1;
    }

    return real(dirfd, path, flags, m);
}
