"""Seeded generator of ASN.1 module texts (DESIGN 2.6).

gen_spec(rng, target) returns a *structured* specification

    {'modules': [{'name': str, 'header': str, 'imports': str,
                  'assignments': [[name, text], ...]}, ...],
     'features': [...]}

so that the minimiser can drop assignments; render(spec) gives the text (one
string per module, as `compile_string`/files want it).

The generator keeps a small model of what it has emitted in order to obey the
well-formedness rules listed in DESIGN 2.6 (distinct tags, finite values for
recursive types, non-zero-width list elements for PER/OER).
"""

from .rng import weighted

STRING_KINDS = ['IA5String', 'PrintableString', 'NumericString',
                'VisibleString', 'UTF8String', 'BMPString',
                'UniversalString', 'GeneralString', 'TeletexString',
                'GraphicString']
TIME_KINDS = ['UTCTime', 'GeneralizedTime', 'DATE', 'TIME-OF-DAY',
              'DATE-TIME']

UNIVERSAL = {
    'BOOLEAN': 1, 'INTEGER': 2, 'BIT STRING': 3, 'OCTET STRING': 4,
    'NULL': 5, 'OBJECT IDENTIFIER': 6, 'REAL': 9, 'ENUMERATED': 10,
    'UTF8String': 12, 'SEQUENCE': 16, 'SEQUENCE OF': 16, 'SET': 17,
    'SET OF': 17, 'NumericString': 18, 'PrintableString': 19,
    'TeletexString': 20, 'IA5String': 22, 'UTCTime': 23,
    'GeneralizedTime': 24, 'GraphicString': 25, 'VisibleString': 26,
    'GeneralString': 27, 'UniversalString': 28, 'BMPString': 30,
    'DATE': 31, 'TIME-OF-DAY': 32, 'DATE-TIME': 33
}

ALL_FEATURES = [
    'bool', 'int', 'int_range', 'int_ext', 'int_minmax', 'int_valueref',
    'int_named', 'int_big', 'enum', 'enum_ext', 'real', 'null', 'oid',
    'bits', 'bits_named', 'bits_size', 'octets', 'octets_size',
    'strings', 'strings_wide', 'str_size', 'str_from', 'times',
    'seq', 'set', 'choice', 'seqof', 'setof', 'of_size',
    'optional', 'default', 'ext', 'ext_groups', 'refs', 'recursion',
    'imports', 'own_tags', 'big_tags', 'class_tags', 'ext_implied',
    'components_of', 'big_sizes', 'nested_inline', 'top_tags',
    'common_names', 'param'
]


class Node(object):
    """A type node of the generator's model; missing attributes are None."""

    def __init__(self, **kwargs):
        self.__dict__.update(kwargs)

    def __getattr__(self, name):
        if name.startswith('__'):
            raise AttributeError(name)

        return None


def _ident(rng, prefix, n):
    mid = rng.choice(['', '', 'x', '-y', 'Z', '-q9'])

    return '{}{}{}'.format(prefix, mid, n)


class Gen(object):

    def __init__(self, rng, target='ber', features=None, knobs=None):
        self.rng = rng
        self.target = target

        if features is None:
            # Swarm: every feature is on with its own per-run probability.
            p = rng.choice([0.35, 0.5, 0.7, 0.9])
            features = [f for f in ALL_FEATURES if rng.random() < p]

            for must in ['seq', 'int']:
                if must not in features:
                    features.append(must)

        self.f = set(features)
        self.knobs = knobs or {}
        self.max_depth = self.knobs.get('max_depth', rng.choice([1, 2, 3, 4]))
        self.max_members = self.knobs.get('max_members',
                                          rng.choice([2, 3, 5, 8]))
        self.n_types = self.knobs.get('n_types', rng.choice([2, 4, 6, 10]))
        self.counter = 0
        self.in_set = False
        self.modules = []

    # -- helpers -----------------------------------------------------------

    def has(self, feature):
        return feature in self.f

    def next(self):
        self.counter += 1

        return self.counter

    def zero_width_matters(self):
        return self.target in ('per', 'uper', 'oer')

    # -- module ------------------------------------------------------------

    def gen(self):
        rng = self.rng
        n_modules = 1

        if self.has('imports'):
            n_modules = rng.choice([2, 2, 3])

        names = ['Mod{}'.format(chr(ord('A') + i)) for i in range(n_modules)]

        # Source order need not be alphabetical order (pformat sorts the
        # keys of a persisted specification dictionary).
        if rng.random() < 0.5:
            rng.shuffle(names)

        # Later modules may import from earlier ones.
        for index, name in enumerate(names):
            module = Node(name=name,
                          tags=rng.choice(['EXPLICIT', 'IMPLICIT',
                                           'AUTOMATIC', 'AUTOMATIC', None]),
                          ext_implied=(self.has('ext_implied')
                                       and rng.random() < 0.5),
                          types=[],       # [(name, node)]
                          values=[],      # [(name, int)]
                          imported=[],    # [(module, name)]
                          templates=[],   # [(name, node)] parameterized
                          imported_templates=[],   # [(module, name, node)]
                          index=index)
            self.modules.append(module)
            self.cur = module

            if index > 0:
                # Import a few types (and values) of earlier modules.
                for earlier in self.modules[:index]:
                    pool = [n for n, _ in earlier.types]
                    rng.shuffle(pool)

                    for type_name in pool[:rng.choice([1, 2, 3])]:
                        module.imported.append((earlier.name, type_name))

                    if earlier.values and rng.random() < 0.5:
                        module.imported.append(
                            (earlier.name, earlier.values[0][0]))

                    for tname, tnode in earlier.templates:
                        if rng.random() < 0.7:
                            module.imported_templates.append(
                                (earlier.name, tname, tnode))

            if self.has('int_valueref'):
                for _ in range(rng.choice([1, 2])):
                    module.values.append(
                        ('val{}'.format(self.next()),
                         rng.choice([0, 1, 5, 7, 20, 255, 256, 70000])))

                # The same value name as in an earlier module, with another
                # number (which one a reference means depends on the module
                # it is looked up from).
                earlier_values = [v for m in self.modules[:index]
                                  for v in m.values]

                if earlier_values and rng.random() < 0.5:
                    vname, vvalue = rng.choice(earlier_values)
                    module.values.append(
                        (vname, vvalue + rng.choice([1, 3, 100, 1000])))

            if self.has('param'):
                for _ in range(rng.choice([1, 1, 2])):
                    self.gen_template()

            n_types = self.n_types if index == n_modules - 1 else max(
                2, self.n_types // 2)

            for _ in range(n_types):
                self.gen_assignment()

        return self.structured()

    def visible_types(self):
        """Names (with nodes) the current module can reference."""

        result = list(self.cur.types)

        for module_name, name in self.cur.imported:
            module = [m for m in self.modules if m.name == module_name][0]

            for type_name, node in module.types:
                if type_name == name:
                    result.append((type_name, node))

        return result

    def visible_values(self):
        result = list(self.cur.values)

        for module_name, name in self.cur.imported:
            module = [m for m in self.modules if m.name == module_name][0]

            for value_name, value in module.values:
                if value_name == name:
                    result.append((value_name, value))

        return result

    def gen_assignment(self):
        rng = self.rng
        name = _ident(rng, rng.choice(['T', 'Msg', 'Rec', 'Ab']), self.next())
        self.cur_name = name
        self.recursion_budget = 1 if self.has('recursion') else 0
        # Top level types are mostly structured.
        node = self.gen_type(0, top=True)

        if self.has('top_tags') and rng.random() < 0.6:
            # Tag on the type assignment itself (outermost identifier
            # octets of every message of this type).
            number = rng.choice([0, 1, 30, 31, 127, 128, 16383, 16384,
                                 2 ** 21 - 1, 2 ** 21, 2 ** 28 - 1, 2 ** 28])

            if rng.random() < 0.6:
                # Any identifier octet value may matter.
                number = rng.choice([rng.randrange(31, 400),
                                     rng.randrange(31, 400),
                                     rng.randrange(400, 2 ** 28)])

            cls = rng.choice(['', 'APPLICATION ', 'PRIVATE '])
            kind = rng.choice(['', ' EXPLICIT', ' IMPLICIT'])

            if kind == ' IMPLICIT' and self.is_choiceish(node):
                kind = ''

            node = Node(k=node.k, text='[{}{}]{} {}'.format(cls, number, kind,
                                                           node.text),
                        utags=None, zero=node.zero,
                        untagged_choice=False, has_ext=node.has_ext,
                        recursive_inside=node.recursive_inside,
                        lo=node.lo, hi=node.hi, names=node.names,
                        named=node.named, size=node.size,
                        alphabet=node.alphabet, tagged_top=True)

        self.cur.types.append((name, node))

    # -- types -------------------------------------------------------------

    def simple_kinds(self):
        kinds = []

        if self.has('bool'):
            kinds.append((2, 'BOOLEAN'))

        kinds.append((4, 'INTEGER'))

        if self.has('enum'):
            kinds.append((2, 'ENUMERATED'))

        if self.has('real'):
            kinds.append((1, 'REAL'))

        if self.has('null'):
            kinds.append((1, 'NULL'))

        if self.has('oid'):
            kinds.append((1, 'OBJECT IDENTIFIER'))

        if self.has('bits'):
            kinds.append((2, 'BIT STRING'))

        if self.has('octets'):
            kinds.append((2, 'OCTET STRING'))

        if self.has('strings'):
            kinds.append((3, 'STRING'))

        if self.has('times'):
            kinds.append((1, 'TIME'))

        return kinds

    def struct_kinds(self):
        kinds = [(4, 'SEQUENCE')]

        if self.has('set'):
            kinds.append((2, 'SET'))

        if self.has('choice'):
            kinds.append((3, 'CHOICE'))

        if self.has('seqof'):
            kinds.append((3, 'SEQUENCE OF'))

        if self.has('setof'):
            kinds.append((1, 'SET OF'))

        return kinds

    def gen_type(self, depth, top=False, nonzero=False, allow_ref=True):
        """Returns a Node with at least: k, text, utags (frozenset of
        universal tag numbers the outermost TLV may carry, or None if
        unknown), zero (may be zero width in PER/OER)."""

        rng = self.rng
        kinds = []

        if depth < self.max_depth and (top or self.has('nested_inline')
                                       or depth == 0):
            weight = 3 if top else 1
            kinds += [(w * weight, k) for w, k in self.struct_kinds()]

        if not top or rng.random() < 0.3:
            kinds += self.simple_kinds()

        if allow_ref and self.has('refs') and self.visible_types():
            kinds.append((6, 'REF'))

        if self.has('param') and self.visible_templates() \
                and not getattr(self, 'in_template', False):
            kinds.append((5 if top else 3, 'PARAM'))

        for _ in range(20):
            kind = weighted(rng, kinds)
            node = self.gen_kind(kind, depth)

            if node is None:
                continue

            if nonzero and node.zero:
                continue

            return node

        return self.gen_integer(force_wide=True)

    def gen_kind(self, kind, depth):
        if kind == 'BOOLEAN':
            return Node(k=kind, text='BOOLEAN', utags=frozenset([1]),
                        zero=False)
        elif kind == 'INTEGER':
            return self.gen_integer()
        elif kind == 'ENUMERATED':
            return self.gen_enumerated()
        elif kind == 'REAL':
            return Node(k=kind, text='REAL', utags=frozenset([9]), zero=False)
        elif kind == 'NULL':
            return Node(k=kind, text='NULL', utags=frozenset([5]), zero=True)
        elif kind == 'OBJECT IDENTIFIER':
            return Node(k=kind, text='OBJECT IDENTIFIER',
                        utags=frozenset([6]), zero=False)
        elif kind == 'BIT STRING':
            return self.gen_bit_string()
        elif kind == 'OCTET STRING':
            return self.gen_octet_string()
        elif kind == 'STRING':
            return self.gen_string()
        elif kind == 'TIME':
            name = self.rng.choice(TIME_KINDS)

            return Node(k=name, text=name,
                        utags=frozenset([UNIVERSAL[name]]), zero=False)
        elif kind in ('SEQUENCE', 'SET'):
            return self.gen_members_type(kind, depth)
        elif kind == 'CHOICE':
            return self.gen_choice(depth)
        elif kind in ('SEQUENCE OF', 'SET OF'):
            return self.gen_list(kind, depth)
        elif kind == 'REF':
            return self.gen_ref()
        elif kind == 'PARAM':
            return self.gen_instance(depth)

    # -- X.683 parameterized types ------------------------------------------

    def visible_templates(self):
        return list(self.cur.templates) + [
            (name, node) for _, name, node in self.cur.imported_templates]

    def gen_template(self):
        """Name{Dummy} ::= SEQUENCE / SET { ... members typed by Dummy ... }
        or SEQUENCE OF.  The tagging and extensibility defaults that apply
        are those of THIS module, wherever the template is instantiated."""

        rng = self.rng
        number = self.next()
        name = 'Tm{}'.format(number)
        dummy = 'Par{}'.format(number)
        kind = rng.choice(['SEQUENCE', 'SEQUENCE', 'SET', 'SEQUENCE OF'])
        self.in_template = True
        self.cur_name = name
        self.recursion_budget = 0
        saved_features = self.f
        # (The library's dummy substitution cannot walk extensible, MIN/MAX
        # or single-value ranges: none inside a template.)
        self.f = self.f - {'int_ext', 'int_minmax', 'int_valueref',
                           'int_named', 'nested_inline'}

        try:
            if kind == 'SEQUENCE OF':
                if rng.random() < 0.5:
                    element = dummy
                else:
                    element = 'SEQUENCE {{ e{0} {1}, f{0} BOOLEAN OPTIONAL }}' \
                        .format(number, dummy)

                text = 'SEQUENCE OF {}'.format(element)
            else:
                count = rng.choice([1, 2, 3])
                members = []
                dummy_used = False
                automatic = self.cur.tags == 'AUTOMATIC'
                tagged = not automatic or rng.random() < 0.15

                for index in range(count + 1):
                    member_name = 'p{}x{}'.format(number, index)
                    modifier = ''

                    if index == 0 or rng.random() < 0.4:
                        type_text = dummy
                        dummy_used = True

                        if index > 0 and self.has('optional') \
                                and rng.random() < 0.4:
                            modifier = ' OPTIONAL'
                    else:
                        for _ in range(10):
                            node = self.gen_type(2, allow_ref=False)

                            # (The library's dummy substitution cannot
                            # walk MIN/MAX or single-value ranges.)
                            if node.k != 'INTEGER' or '(' not in node.text \
                                    or ('..' in node.text
                                        and 'MIN' not in node.text
                                        and 'MAX' not in node.text):
                                break
                        else:
                            node = self.gen_integer(force_wide=True)

                        type_text = node.text
                        roll = rng.random()

                        if self.has('optional') and roll < 0.3:
                            modifier = ' OPTIONAL'
                        elif self.has('default') and roll < 0.5:
                            value_text = self.default_text(node)

                            if value_text is not None:
                                modifier = ' DEFAULT ' + value_text

                    tag = '[{}] '.format(index) if tagged else ''
                    members.append('{} {}{}{}'.format(member_name, tag,
                                                      type_text, modifier))

                if self.has('ext') and rng.random() < 0.3:
                    members.append('...')

                text = '{} {{ {} }}'.format(kind, ', '.join(members))
        finally:
            self.in_template = False
            self.f = saved_features

        node = Node(k=kind, dummy=dummy,
                    text='{}{{{}}} ::= {}'.format(name, dummy, text))
        self.cur.templates.append((name, node))

    def gen_instance(self, depth):
        rng = self.rng
        name, template = rng.choice(self.visible_templates())
        roll = rng.random()
        actual = None
        # References in an actual parameter are looked up by the library in
        # the module of the template: only for templates of this module.
        local = any(name == n for n, _ in self.cur.templates)
        saved_features = self.f

        if not local:
            self.f = self.f - {'refs', 'components_of'}

        try:
            return self.gen_instance_of(name, template, roll, depth)
        finally:
            self.f = saved_features

    def gen_instance_of(self, name, template, roll, depth):
        rng = self.rng
        actual = None

        if roll < 0.25 and depth < self.max_depth:
            # An inline constructed actual parameter (text of THIS module:
            # its tagging default applies to it).
            saved = self.in_set, getattr(self, 'in_template', False)
            self.in_set = False
            self.in_template = True     # no nested instances in there
            actual = self.gen_members_type('SEQUENCE', self.max_depth)
            self.in_set, self.in_template = saved
        elif roll < 0.5 and self.has('refs') and self.visible_types():
            actual = self.gen_ref()

            if actual is not None and actual.recursive:
                actual = None

        if actual is None:
            for _ in range(10):
                actual = self.gen_kind(weighted(rng, self.simple_kinds()),
                                       depth)

                if actual is not None and not actual.zero:
                    break
            else:
                actual = self.gen_integer(force_wide=True)

        return Node(k='PARAM', text='{}{{{}}}'.format(name, actual.text),
                    utags=frozenset([UNIVERSAL[template.k]]),
                    zero=False, has_ext=True, tagged_top=False)

    def size_text(self, allow_zero=True):
        """Returns (text, lo, hi, fixed_zero)."""

        rng = self.rng
        big = self.has('big_sizes') and rng.random() < 0.15

        if big:
            lo, hi = rng.choice([(0, 70000), (65535, 65536), (16383, 16385),
                                 (0, 65535), (1, 300)])
        else:
            lo = rng.choice([0, 0, 1, 1, 2, 3, 5])
            hi = lo + rng.choice([0, 0, 1, 2, 3, 10, 60, 200])

        if not allow_zero and hi == 0:
            hi = 1

        ext = ', ...' if (self.has('ext') and rng.random() < 0.25) else ''

        if lo == hi:
            body = str(lo)
        else:
            body = '{}..{}'.format(lo, hi)

        values = self.visible_values()

        if (self.has('int_valueref') and values and rng.random() < 0.2):
            vname, vvalue = rng.choice(values)

            if vvalue <= 300 and vvalue >= lo:
                hi = vvalue
                body = '{}..{}'.format(lo, vname) if lo != hi else vname

        return 'SIZE({}{})'.format(body, ext), lo, hi, (hi == 0 and not ext)

    def gen_integer(self, force_wide=False):
        rng = self.rng
        text = 'INTEGER'
        named = None
        zero = False
        lo = hi = None

        if self.has('int_named') and rng.random() < 0.2 and not force_wide:
            named = [('nn{}'.format(self.next()), v)
                     for v in sorted(rng.sample(range(-3, 12), 2))]

            # A named number with the name of a visible value (and another
            # number): which one a bound means is a matter of scope.
            values = [(n, v) for n, v in self.visible_values()
                      if v not in (named[0][1], named[1][1])]

            if values and self.has('int_valueref') and rng.random() < 0.3:
                index = rng.randrange(2)
                named[index] = (rng.choice(values)[0], named[index][1])
            text += ' {{ {} }}'.format(
                ', '.join('{}({})'.format(n, v) for n, v in named))

        if force_wide:
            return Node(k='INTEGER', text='INTEGER (0..255)',
                        utags=frozenset([2]), zero=False, lo=0, hi=255)

        choice = rng.random()

        if self.has('int_range') and choice < 0.6:
            lo = rng.choice([0, 0, 1, -1, -128, -129, -32768, 5, 100, 255,
                             256, -2 ** 31, 0, -5])
            span = rng.choice([0, 1, 2, 7, 8, 15, 127, 254, 255, 256, 65535,
                               65536, 2 ** 32 - 1, 2 ** 32, 10, 1000])

            if self.has('int_big') and rng.random() < 0.15:
                span = rng.choice([2 ** 63 - 1, 2 ** 64 - 1, 2 ** 64,
                                   2 ** 70])

            hi = lo + span
            lo_text, hi_text = str(lo), str(hi)

            if named and rng.random() < 0.5:
                lo, hi = named[0][1], named[1][1]
                lo_text, hi_text = named[0][0], named[1][0]
            elif self.has('int_minmax') and rng.random() < 0.25:
                if rng.random() < 0.5:
                    lo, lo_text = None, 'MIN'
                else:
                    hi, hi_text = None, 'MAX'
            elif (self.has('int_valueref') and self.visible_values()
                  and rng.random() < 0.25):
                vname, vvalue = rng.choice(self.visible_values())

                if lo <= vvalue:
                    hi, hi_text = vvalue, vname

            ext = ''

            if self.has('int_ext') and rng.random() < 0.3:
                ext = ', ...'

            if lo is not None and lo == hi:
                body = lo_text

                if not ext:
                    zero = True
            else:
                body = '{}..{}'.format(lo_text, hi_text)

            text += ' ({}{})'.format(body, ext)

        return Node(k='INTEGER', text=text, utags=frozenset([2]), zero=zero,
                    lo=lo, hi=hi)

    def gen_enumerated(self):
        rng = self.rng
        count = rng.choice([1, 2, 3, 5, 9])
        numbers = sorted(rng.sample(range(0, 40), count))

        if rng.random() < 0.2:
            numbers = list(range(count))

        if rng.random() < 0.1:
            numbers = sorted(rng.sample(range(-5, 300), count))

        names = ['e{}'.format(self.next()) for _ in numbers]
        items = ['{}({})'.format(n, v) for n, v in zip(names, numbers)]
        ext = self.has('enum_ext') and rng.random() < 0.4
        values = {}

        own = dict(self.cur.values)

        for vname, vvalue in self.visible_values():
            # One name per number, one number per name (a local value
            # shadows an imported one of the same name).
            if own.get(vname, vvalue) == vvalue \
                    and vname not in values.values():
                values.setdefault(vvalue, vname)

        if self.has('int_valueref') and values and rng.random() < 0.3:
            # Numbers given as value references (the parser cannot number
            # additions after those, so no extension marker then).
            ext = False
            chosen = sorted(rng.sample(sorted(values),
                                       min(len(values), count)))
            numbers = chosen
            names = names[:len(chosen)]
            items = ['{}({})'.format(n, values[v])
                     for n, v in zip(names, chosen)]
            count = len(chosen)
        add_names = []

        if ext:
            items.append('...')

            for i in range(rng.choice([0, 1, 2])):
                name = 'e{}'.format(self.next())
                add_names.append(name)
                items.append('{}({})'.format(name, numbers[-1] + 1 + i))

        return Node(k='ENUMERATED',
                    text='ENUMERATED {{ {} }}'.format(', '.join(items)),
                    utags=frozenset([10]),
                    zero=(count == 1 and not ext),
                    names=names + add_names)

    def gen_bit_string(self):
        rng = self.rng
        text = 'BIT STRING'
        named = None
        zero = False
        size = None

        if self.has('bits_named') and rng.random() < 0.4:
            positions = sorted(rng.sample(range(0, 12), rng.choice([1, 2, 4])))
            named = [('nb{}'.format(self.next()), p) for p in positions]
            text += ' {{ {} }}'.format(
                ', '.join('{}({})'.format(n, p) for n, p in named))

        if self.has('bits_size') and rng.random() < 0.5:
            size_text, lo, hi, zero = self.size_text()

            if named and hi <= named[-1][1]:
                hi = named[-1][1] + 1
                lo = min(lo, hi)
                size_text = 'SIZE({}..{})'.format(lo, hi) if lo != hi \
                    else 'SIZE({})'.format(lo)
                zero = False

            size = (lo, hi)
            text += ' ({})'.format(size_text)

        return Node(k='BIT STRING', text=text, utags=frozenset([3]),
                    zero=zero, named=named, size=size)

    def gen_octet_string(self):
        text = 'OCTET STRING'
        zero = False
        size = None

        if self.has('octets_size') and self.rng.random() < 0.5:
            size_text, lo, hi, zero = self.size_text()
            size = (lo, hi)
            text += ' ({})'.format(size_text)

        return Node(k='OCTET STRING', text=text, utags=frozenset([4]),
                    zero=zero, size=size)

    def gen_string(self):
        rng = self.rng
        kinds = ['IA5String', 'PrintableString', 'NumericString',
                 'VisibleString', 'UTF8String']

        if self.has('strings_wide'):
            kinds += ['BMPString', 'UniversalString', 'GeneralString',
                      'TeletexString', 'GraphicString']

        kind = rng.choice(kinds)
        text = kind
        zero = False
        size = None
        alphabet = None
        constraints = []

        if self.has('str_size') and rng.random() < 0.5:
            size_text, lo, hi, zero = self.size_text()
            size = (lo, hi)
            constraints.append(size_text)

        if (self.has('str_from') and rng.random() < 0.3
                and kind in ('IA5String', 'PrintableString', 'VisibleString',
                             'NumericString')):
            if kind == 'NumericString':
                alphabet = rng.choice(['"0".."9"', '"0".."3"', '"1" | "5"'])
            else:
                alphabet = rng.choice(['"a".."z"', '"A".."F" | "0".."9"',
                                       '"a" | "b"', '"x"'])

            # A one-character alphabet is a zero-width character in
            # PER/UPER (see DESIGN C08, scope restriction).
            if self.zero_width_matters() and alphabet in ('"x"',):
                alphabet = '"x" | "y"'

            constraints.append('FROM({})'.format(alphabet))

        if len(constraints) == 1:
            text += ' ({})'.format(constraints[0])
        elif len(constraints) == 2:
            # Both orders/forms are legal; the parser is picky, so use the
            # two parenthesised forms it accepts.
            text += ' ({}) ({})'.format(constraints[0], constraints[1])

        return Node(k=kind, text=text, utags=frozenset([UNIVERSAL[kind]]),
                    zero=zero, size=size, alphabet=alphabet)

    def gen_ref(self):
        rng = self.rng
        candidates = self.visible_types()

        # Recursion: reference the type being defined.  Only legal through
        # an OPTIONAL member, a CHOICE alternative or a list element; the
        # caller (`member`/`choice`/`list`) sets `self.recursion_ok`.
        if (self.recursion_budget > 0 and getattr(self, 'recursion_ok', False)
                and rng.random() < 0.35):
            self.recursion_budget -= 1

            return Node(k='REF', text=self.cur_name, utags=None, zero=False,
                        recursive=True, ref=self.cur_name)

        if not candidates:
            return None

        name, node = rng.choice(candidates)
        text = name
        values = self.visible_values()

        if (node.k == 'INTEGER' and node.lo is None and node.hi is None
                and not node.tagged_top and self.has('int_valueref')
                and values and rng.random() < 0.5):
            # A further constraint on the referenced type, bounded by a
            # value reference.
            vname, vvalue = rng.choice(values)

            if vvalue >= 1:
                text = '{} ({}..{})'.format(name, rng.choice([0, 1]), vname)

        return Node(k='REF', text=text, utags=node.utags, zero=node.zero,
                    ref=name, target=node)

    def is_choiceish(self, node):
        if node is None:
            return True

        if node.k == 'CHOICE' or node.recursive:
            return True

        if node.k == 'REF':
            return self.is_choiceish(node.target)

        return False

    def tag_text(self, number, node=None):
        rng = self.rng

        if self.has('big_tags') and rng.random() < 0.2:
            number = rng.choice([30, 31, 127, 128, 16383, 16384, 2 ** 21,
                                 2 ** 28 - 1, 2 ** 28,
                                 rng.randrange(31, 400) * 64,
                                 rng.randrange(31, 2 ** 21) * 64]) + number

        cls = ''

        if self.has('class_tags') and rng.random() < 0.2:
            cls = rng.choice(['APPLICATION ', 'PRIVATE '])

        kind = ''

        if rng.random() < 0.3:
            kind = rng.choice([' EXPLICIT', ' IMPLICIT'])

            # A CHOICE (or a reference that may resolve to one) cannot be
            # tagged IMPLICIT.
            if kind == ' IMPLICIT' and self.is_choiceish(node):
                kind = ''

        return '[{}{}]{}'.format(cls, number, kind), (cls, number)

    def need_own_tags(self, nodes, strict_all=True):
        """True if the given member nodes do not have pairwise distinct,
        known outer tags (so explicit context tags are needed)."""

        seen = set()

        for node in nodes:
            if node.utags is None or node.k == 'CHOICE' or node.untagged_choice:
                return True

            for tag in node.utags:
                if tag in seen:
                    return True

                seen.add(tag)

        return False

    def gen_members(self, depth, kind):
        """Members of a SEQUENCE/SET: returns (text, utags..., info)."""

        rng = self.rng
        count = rng.randint(0 if rng.random() < 0.05 else 1,
                            self.max_members)
        members = []
        used = set()

        for _ in range(count):
            members.append(self.gen_member(depth, used=used))

        additions = []
        has_ext = self.has('ext') and rng.random() < 0.4

        if has_ext:
            for _ in range(rng.choice([0, 1, 1, 2, 3])):
                if self.has('ext_groups') and rng.random() < 0.4:
                    # (The library does not instantiate parameterized types
                    # inside [[ ]]: none are generated there.)
                    saved = getattr(self, 'in_template', False)
                    self.in_template = True
                    group = [self.gen_member(depth, in_addition=True,
                                             used=used)
                             for _ in range(rng.choice([1, 2, 3]))]
                    self.in_template = saved
                    additions.append(group)
                else:
                    additions.append(self.gen_member(depth, in_addition=True,
                                                     used=used))

        return members, additions, has_ext

    def gen_member(self, depth, in_addition=False, used=None):
        rng = self.rng
        name = _ident(rng, rng.choice(['a', 'b', 'm', 'fld']), self.next())

        # Real specifications reuse member names all over the place (id,
        # value, ...), and the compilers cache compiled types per (type
        # name, member name).  `used` holds the names taken in this
        # component list.
        if self.has('common_names') and used is not None \
                and rng.random() < 0.5:
            pool = [n for n in ('id9', 'value9', 'm9', 'data9', 'flag9')
                    if n not in used]

            if pool:
                name = rng.choice(pool)

        if used is not None:
            used.add(name)
        modifier = ''
        roll = rng.random()
        optional = False
        default = False

        if self.has('optional') and roll < 0.3:
            optional = True
        elif self.has('default') and roll < 0.5:
            default = True

        self.recursion_ok = optional and not self.in_set
        node = None
        shared = getattr(self.cur, 'shared_refs', None)

        if shared is None:
            shared = self.cur.shared_refs = {}

        # ... and give the same name to members of the same referenced type
        # in several types (`id9 Colour` here at [0], there at [3]): the
        # compiled-type cache then hands out shallow copies of one object.
        if name in shared and rng.random() < 0.6 \
                and any(t == shared[name].ref
                        for t, _ in self.visible_types()):
            node = Node(**vars(shared[name]))
        else:
            if name.endswith('9') and self.has('refs') \
                    and rng.random() < 0.5:
                node = self.gen_ref()

            if node is None:
                node = self.gen_type(depth + 1)

            if node.k == 'REF' and not node.recursive \
                    and name.endswith('9') and node.text == node.ref:
                shared[name] = node

        self.recursion_ok = False

        if optional:
            modifier = ' OPTIONAL'
        elif default:
            value_text = self.default_text(node)

            if value_text is not None:
                modifier = ' DEFAULT ' + value_text
            else:
                default = False

        return Node(name=name, node=node, modifier=modifier,
                    optional=optional, default=default)

    def default_text(self, node):
        """ASN.1 value notation of a DEFAULT for the simple types the parser
        converts."""

        rng = self.rng
        target = node

        while target.k == 'REF':
            if target.recursive or target.target is None:
                return None

            target = target.target

        kind = target.k

        if kind in ('SEQUENCE OF', 'SET OF'):
            # A list of enumeration items (the one list default the parser
            # reads).
            element = target.element

            while element is not None and element.k == 'REF':
                element = None if element.recursive else element.target

            if element is None or element.k != 'ENUMERATED' or target.sized:
                return None

            picked = [n for n in element.names if rng.random() < 0.5]

            return '{ ' + ', '.join(picked or element.names[:1]) + ' }'

        if kind == 'BOOLEAN':
            return rng.choice(['TRUE', 'FALSE'])
        elif kind == 'REAL':
            return rng.choice(['1.5', '0', '-2.25', 'PLUS-INFINITY',
                               'MINUS-INFINITY'])
        elif kind == 'UTCTime':
            return rng.choice(['"9912312359Z"', '"0001010000Z"'])
        elif kind == 'GeneralizedTime':
            return rng.choice(['"20001231235959Z"', '"19991231235959.5Z"'])
        elif kind == 'INTEGER':
            lo, hi = target.lo, target.hi

            if lo is None and hi is None:
                return str(rng.choice([0, 1, -1, 7, 255, 100000]))

            if lo is None:
                return str(hi - rng.choice([0, 1, 5]))

            if hi is None:
                return str(lo + rng.choice([0, 1, 5]))

            return str(rng.choice([lo, hi, (lo + hi) // 2]))
        elif kind == 'ENUMERATED':
            return rng.choice(target.names)
        elif kind == 'BIT STRING':
            size = target.size
            form = rng.random()

            if target.named and form < 0.5:
                chosen = [n for n, _ in target.named if rng.random() < 0.6]

                if size is not None and size[0] > 0 and not chosen:
                    return None

                return '{ ' + ', '.join(chosen) + ' }' if chosen else None

            length = rng.choice([0, 1, 3, 8, 9, 16])

            if size is not None:
                length = rng.choice([size[0], min(size[1], size[0] + 3)])

            if length > 64:
                return None

            bits = ''.join(rng.choice('01') for _ in range(length))

            if length % 4 == 0 and rng.random() < 0.5 and length > 0:
                return "'{:0{}X}'H".format(int(bits, 2), length // 4)

            return "'{}'B".format(bits)
        elif kind == 'OCTET STRING':
            size = target.size
            length = rng.choice([0, 1, 2, 4])

            if size is not None:
                length = rng.choice([size[0], min(size[1], size[0] + 2)])

            if length > 32:
                return None

            data = bytes(rng.randrange(256) for _ in range(length))

            if rng.random() < 0.2 and length > 0:
                return "'{}'B".format(
                    ''.join('{:08b}'.format(b) for b in data))

            return "'{}'H".format(data.hex().upper())
        elif kind in ('IA5String', 'PrintableString', 'VisibleString',
                      'UTF8String'):
            if target.alphabet is not None:
                return None

            size = target.size
            length = rng.choice([0, 1, 3])

            if size is not None:
                length = size[0]

            if length > 32:
                return None

            return '"{}"'.format(''.join(rng.choice('abcXYZ 019')
                                         for _ in range(length)))

        return None

    def render_members(self, members, additions, has_ext, own_tags,
                       is_choice=False):
        """Render component list.  own_tags: None (no explicit tags) or the
        starting number for explicit context tags on *all* members."""

        number = [own_tags]

        def one(member):
            text = member.name + ' '

            if number[0] is not None:
                tag, _ = self.tag_text(number[0], member.node)
                number[0] += 1
                text += tag + ' '

            text += member.node.text + member.modifier

            return text

        parts = [one(member) for member in members]

        if has_ext:
            parts.append('...')

            for addition in additions:
                if isinstance(addition, list):
                    parts.append('[[ ' + ', '.join(one(m) for m in addition)
                                 + ' ]]')
                else:
                    parts.append(one(addition))

            if additions and self.rng.random() < 0.2 and not is_choice:
                parts.append('...')

        return ', '.join(parts)

    def decide_own_tags(self, members, additions, kind):
        """Decide whether explicit context tags are needed."""

        flat = list(members)

        for addition in additions:
            if isinstance(addition, list):
                flat.extend(addition)
            else:
                flat.append(addition)

        automatic = (self.cur.tags == 'AUTOMATIC')

        if automatic:
            # All-or-none; none lets the library number them.
            if self.has('own_tags') and self.rng.random() < 0.15:
                return 0, flat

            return None, flat

        nodes = [m.node for m in flat]

        if kind == 'SEQUENCE':
            # Only runs of OPTIONAL/DEFAULT members (plus the following
            # mandatory one) and everything after the marker must differ;
            # being conservative: if any member is optional/default or there
            # are additions, require all distinct.
            risky = bool(additions) or any(m.optional or m.default
                                           for m in flat)

            if not risky and not (self.has('own_tags')
                                  and self.rng.random() < 0.2):
                return None, flat

        # PER/OER sort SET members by their explicit tag and cannot order
        # untagged ones, so a SET is always tagged outside AUTOMATIC modules.
        if kind == 'SET' or self.need_own_tags(nodes) or (self.has('own_tags')
                                         and self.rng.random() < 0.3):
            return self.rng.choice([0, 0, 0, 1, 5]), flat

        return None, flat

    def gen_members_type(self, kind, depth):
        # The library cannot sort a SET with a recursive member by tag.
        saved = self.in_set
        self.in_set = (kind == 'SET')
        members, additions, has_ext = self.gen_members(depth, kind)
        self.in_set = saved
        own_tags, flat = self.decide_own_tags(members, additions, kind)
        components_of = ''

        if (self.has('components_of') and kind == 'SEQUENCE' and depth == 0
                and self.rng.random() < 0.4 and own_tags is None
                and self.cur.tags == 'AUTOMATIC'):
            # COMPONENTS OF an earlier SEQUENCE of this module.
            candidates = [n for n, node in self.visible_types()
                          if node.k == 'SEQUENCE' and not node.recursive_inside
                          and not node.has_ext and not node.tagged_top]

            if candidates:
                components_of = 'COMPONENTS OF {}, '.format(
                    self.rng.choice(candidates))

        body = self.render_members(members, additions, has_ext, own_tags)

        if components_of and not body:
            components_of = components_of.rstrip(', ')

        text = '{} {{ {}{} }}'.format(kind, components_of, body)
        mandatory_nonzero = any(not (m.optional or m.default)
                                and not m.node.zero for m in members)
        has_bitmap = any(m.optional or m.default for m in members) or has_ext

        return Node(k=kind, text=text,
                    utags=frozenset([UNIVERSAL[kind]]),
                    zero=not (mandatory_nonzero or has_bitmap
                              or bool(components_of)),
                    has_ext=has_ext,
                    recursive_inside=any(
                        m.node.recursive or m.node.recursive_inside
                        for m in flat))

    def gen_choice(self, depth, force_ext=False):
        rng = self.rng
        count = rng.randint(1, max(1, self.max_members))
        members = []

        for _ in range(count):
            name = _ident(rng, rng.choice(['c', 'alt', 'opt']), self.next())
            # A CHOICE needs at least one non-recursive alternative.
            self.recursion_ok = len(members) > 0
            node = self.gen_type(depth + 1)
            self.recursion_ok = False
            members.append(Node(name=name, node=node, modifier=''))

        additions = []
        has_ext = force_ext or (self.has('ext') and rng.random() < 0.35)

        if has_ext:
            for _ in range(rng.choice([0, 1, 2])):
                name = _ident(rng, 'cx', self.next())
                self.recursion_ok = True
                node = self.gen_type(depth + 1)
                self.recursion_ok = False
                additions.append(Node(name=name, node=node, modifier=''))

        own_tags, flat = self.decide_own_tags(members, additions, 'CHOICE')
        body = self.render_members(members, additions, has_ext, own_tags,
                                   is_choice=True)
        utags = None

        if own_tags is None and self.cur.tags != 'AUTOMATIC':
            utags = frozenset().union(*[m.node.utags for m in flat])

        return Node(k='CHOICE', text='CHOICE {{ {} }}'.format(body),
                    utags=utags, untagged_choice=True,
                    zero=(len(flat) == 1 and not has_ext
                          and flat[0].node.zero),
                    has_ext=has_ext,
                    recursive_inside=any(
                        m.node.recursive or m.node.recursive_inside
                        for m in flat))

    def gen_list(self, kind, depth):
        rng = self.rng
        self.recursion_ok = True

        if (self.has('ext') and self.has('choice') and rng.random() < 0.25
                and depth < self.max_depth):
            # A list of extensible CHOICE values: decoders must skip unknown
            # alternatives element by element.
            element = self.gen_choice(depth + 1, force_ext=True)
        else:
            element = self.gen_type(depth + 1,
                                    nonzero=self.zero_width_matters())

        self.recursion_ok = False
        size = ''
        zero = False

        recursive = bool(element.recursive or element.recursive_inside)

        if self.has('of_size') and rng.random() < 0.5 and not recursive:
            size_text, lo, hi, fixed_zero = self.size_text()

            if hi > 300:
                # Keep lists short; long ones are for strings.
                size_text = 'SIZE(0..300)'
                lo, hi = 0, 300

            size = ' ({})'.format(size_text)
            zero = fixed_zero or (lo == hi and element.zero
                                  and '...' not in size_text)

        base = kind.split()[0]
        text = '{}{} OF {}'.format(base, size, element.text)

        return Node(k=kind, text=text, utags=frozenset([UNIVERSAL[kind]]),
                    zero=zero, element=element, sized=bool(size),
                    recursive_inside=bool(element.recursive
                                          or element.recursive_inside))

    # -- output ------------------------------------------------------------

    def structured(self):
        modules = []

        for module in self.modules:
            header = '{} DEFINITIONS'.format(module.name)

            if module.tags is not None:
                header += ' {} TAGS'.format(module.tags)

            if module.ext_implied:
                header += ' EXTENSIBILITY IMPLIED'

            header += ' ::= BEGIN'
            imports = ''

            if module.imported or module.imported_templates:
                by_module = {}

                for module_name, name in module.imported:
                    by_module.setdefault(module_name, []).append(name)

                for module_name, name, _ in module.imported_templates:
                    by_module.setdefault(module_name, []).append(name + '{}')

                imports = 'IMPORTS ' + ' '.join(
                    '{} FROM {}'.format(', '.join(names), module_name)
                    for module_name, names in by_module.items()) + ';'

            assignments = []

            for name, value in module.values:
                assignments.append([name,
                                    '{} INTEGER ::= {}'.format(name, value)])

            for name, node in module.templates:
                assignments.append([name, node.text])

            for name, node in module.types:
                assignments.append([name,
                                    '{} ::= {}'.format(name, node.text)])

            modules.append({'name': module.name,
                            'header': header,
                            'imports': imports,
                            'assignments': assignments})

        return {'modules': modules,
                'features': sorted(self.f),
                'target': self.target}


def gen_spec(rng, target='ber', features=None, knobs=None):
    return Gen(rng, target, features, knobs).gen()


def render_module(module):
    lines = [module['header']]

    if module['imports']:
        lines.append(module['imports'])

    for _, text in module['assignments']:
        lines.append(text)

    lines.append('END')

    return '\n'.join(lines) + '\n'


def render(spec):
    """One text with all modules (compile_string accepts several)."""

    return '\n'.join(render_module(module) for module in spec['modules'])


def render_files(spec):
    return [(module['name'] + '.asn', render_module(module))
            for module in spec['modules']]
