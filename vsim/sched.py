"""Deterministic thread scheduler (DESIGN 2.3).

Real threading.Thread objects, each parked on its own semaphore; exactly one
holds the baton.  The shared step clock calls `Scheduler.hook` when the
global tick count reaches `hook_at`; the hook decides - from an explicit
schedule or from a seeded policy - whether to switch and to whom, and hands
the baton over with release(next); acquire(self).  Who runs is never decided
by the OS or the GIL.  The schedule actually taken is recorded as a run-length
list [[tid, ticks], ...], which is what replay files store and re-impose.
"""

import random
import sys
import threading

from . import steps

FOREVER = 1 << 60


class HarnessError(Exception):
    pass


def _ask_for_opcode_events():
    sys._getframe().f_trace_opcodes = True


class Scheduler(object):

    def __init__(self, n_threads, schedule, limit, inject_tick=None,
                 total_hint=100000, opcodes=False):
        self.n = n_threads
        self.schedule = schedule
        self.kind = schedule['kind']
        self.sems = [threading.Semaphore(0) for _ in range(n_threads)]
        self.done = [False] * n_threads
        self.current = None
        self.recorded = []          # [[tid, ticks]]
        self.slice_start = 0
        self.switches = 0
        self.inject_tick = inject_tick
        self.injected_in = None     # (tid, op index) where the fault fired
        self.current_op = [None] * n_threads
        self.clock = steps.StepClock(limit, self.hook)
        self.opcodes = bool(opcodes) and hasattr(self.clock, 'opcodes')

        if self.opcodes:
            # Pre-emption points between bytecode instructions, not only
            # between source lines.
            self.clock.opcodes = 1

        self.clock.hook_at = FOREVER
        self.next_switch = FOREVER
        self.finished = threading.Event()
        self.errors = []

        if self.kind == 'explicit':
            self.runs = [list(r) for r in schedule['runs']]
            self.run_index = 0
        elif self.kind == 'random':
            self.rng = random.Random(schedule['seed'])
            self.p = schedule['p']
        elif self.kind == 'rr':
            self.q = max(1, int(schedule['q']))
        elif self.kind == 'pct':
            self.rng = random.Random(schedule['seed'])
            self.priority = list(range(n_threads))
            self.rng.shuffle(self.priority)
            self.change_points = sorted(
                self.rng.randrange(max(1, total_hint))
                for _ in range(schedule['d']))
        elif self.kind == 'sequential':
            pass
        else:
            raise ValueError(self.kind)

    # -- policy ---------------------------------------------------------------

    def runnable(self):
        return [t for t in range(self.n) if not self.done[t]]

    def first_thread(self):
        if self.kind == 'explicit' and self.runs:
            tid = self.runs[0][0]

            if 0 <= tid < self.n:
                return tid

        if self.kind == 'random':
            return self.rng.randrange(self.n)

        if self.kind == 'pct':
            return max(range(self.n), key=lambda t: self.priority[t])

        return 0

    def gap(self):
        """Ticks the thread that just got the baton may run."""

        if self.kind == 'explicit':
            if self.run_index < len(self.runs):
                return max(1, self.runs[self.run_index][1])

            return FOREVER

        if self.kind == 'random':
            # Geometric number of ticks until the next switch.
            gap = 1

            while self.rng.random() >= self.p and gap < 100000:
                gap += 1 if self.p >= 0.05 else int(1 / self.p / 4) + 1

            return gap

        if self.kind == 'rr':
            return self.q

        if self.kind == 'pct':
            while self.change_points and \
                    self.change_points[0] <= self.clock.ticks:
                self.change_points.pop(0)

            if self.change_points:
                return max(1, self.change_points[0] - self.clock.ticks)

            return FOREVER

        return FOREVER

    def choose_next(self, me, finished):
        """Thread to run after `me` was pre-empted (or finished)."""

        runnable = self.runnable()

        if not runnable:
            return None

        if self.kind == 'explicit':
            self.run_index += 1

            while self.run_index < len(self.runs):
                tid = self.runs[self.run_index][0]

                if tid in runnable:
                    return tid

                self.run_index += 1

            if not finished and me in runnable:
                return me

            return runnable[0]

        others = [t for t in runnable if t != me]

        if self.kind == 'random':
            if not others:
                return me if not finished else None

            return self.rng.choice(others)

        if self.kind == 'rr' or self.kind == 'sequential':
            if self.kind == 'sequential' and not finished:
                return me

            for step in range(1, self.n + 1):
                tid = (me + step) % self.n

                if tid in runnable:
                    return tid

        if self.kind == 'pct':
            if not finished:
                # A change point: the running thread drops to the lowest
                # priority.
                self.priority[me] = min(self.priority) - 1

            return max(runnable, key=lambda t: self.priority[t])

        return runnable[0]

    # -- mechanics --------------------------------------------------------------

    def arm(self):
        self.slice_start = self.clock.ticks
        gap = self.gap()
        self.next_switch = self.clock.ticks + gap if gap < FOREVER else FOREVER
        at = self.next_switch

        if self.inject_tick is not None:
            at = min(at, self.inject_tick)

        self.clock.hook_at = at

    def record(self, tid, finished=False):
        ticks = self.clock.ticks - self.slice_start

        # A slice of n ticks means: the thread saw n line events and was
        # pre-empted before executing the n-th.  A thread that ran to its
        # end executed all of them; record n + 1 so that a replay does not
        # pre-empt it at its last line.
        if finished:
            ticks += 1

        if self.recorded and self.recorded[-1][0] == tid:
            self.recorded[-1][1] += ticks
        else:
            self.recorded.append([tid, ticks])

    def hook(self):
        """Called by the step clock inside the running thread."""

        me = self.current

        if self.inject_tick is not None and \
                self.clock.ticks >= self.inject_tick:
            self.inject_tick = None
            self.injected_in = (me, self.current_op[me])
            self.clock.hook_at = self.next_switch

            raise steps.InjectedFault('injected allocation failure')

        if self.clock.ticks < self.next_switch:
            self.clock.hook_at = self.next_switch

            return

        self.record(me)
        target = self.choose_next(me, finished=False)

        if target is None or target == me:
            self.arm()

            return

        self.switches += 1
        self.current = target
        self.arm()
        self.sems[target].release()
        self.sems[me].acquire()
        # Back on the baton: `current` was set by whoever released us.

    def thread_main(self, tid, body):
        self.sems[tid].acquire()

        try:
            self.clock.install()

            if self.opcodes:
                # CPython 3.12 only enables instruction events once some
                # frame has asked for them (an interpreter-wide flag that
                # PyEval_SetTrace looks at).  The frame asking must belong
                # to a thread that already has a trace function: 3.12.1
                # calls a NULL c_tracefunc otherwise.
                _ask_for_opcode_events()
                self.clock.install()

            try:
                body(tid)
            finally:
                self.clock.uninstall()
        except BaseException as e:   # harness error inside a worker thread
            self.errors.append('thread {}: {!r}'.format(tid, e))
        finally:
            self.record(tid, finished=True)
            self.done[tid] = True
            target = self.choose_next(tid, finished=True)

            if target is None:
                self.finished.set()
            else:
                self.switches += 1
                self.current = target
                self.arm()
                self.sems[target].release()

    def run(self, body, wall_timeout=900, team=None):
        """body(tid) runs the operations of thread tid.  team: optional
        Team of persistent threads (creating threads is expensive in this
        sandbox when done thousands of times)."""

        if team is not None:
            team.start(self, body)
        else:
            threads = [threading.Thread(target=self.thread_main,
                                        args=(tid, body), daemon=True)
                       for tid in range(self.n)]

            for thread in threads:
                thread.start()

        first = self.first_thread()
        self.current = first
        self.arm()
        self.sems[first].release()

        if not self.finished.wait(wall_timeout):
            raise HarnessError('threads did not finish within {} s '
                               '(current={}, done={})'.format(
                                   wall_timeout, self.current, self.done))

        if team is not None:
            team.wait(wall_timeout)
        else:
            for thread in threads:
                thread.join(wall_timeout)

        if self.errors:
            raise HarnessError('; '.join(self.errors))

        return self.recorded


class Team(object):
    """n persistent caller threads that serve one Scheduler.run() after the
    other."""

    def __init__(self, n):
        self.n = n
        self.jobs = [None] * n
        self.go = [threading.Semaphore(0) for _ in range(n)]
        self.idle = [threading.Semaphore(0) for _ in range(n)]
        self.threads = [threading.Thread(target=self.loop, args=(tid,),
                                         daemon=True) for tid in range(n)]

        for thread in self.threads:
            thread.start()

    def loop(self, tid):
        while True:
            self.go[tid].acquire()
            job = self.jobs[tid]

            if job is None:
                return

            scheduler, body = job

            try:
                scheduler.thread_main(tid, body)
            finally:
                self.idle[tid].release()

    def start(self, scheduler, body):
        for tid in range(self.n):
            self.jobs[tid] = (scheduler, body)
            self.go[tid].release()

    def wait(self, wall_timeout):
        for tid in range(self.n):
            if not self.idle[tid].acquire(timeout=wall_timeout):
                raise HarnessError('team thread {} did not finish'.format(tid))

    def close(self):
        for tid in range(self.n):
            self.jobs[tid] = None
            self.go[tid].release()
