"""Builds the two small native pieces of the simulator into /verif/build/:

* vtrace  - CPython extension: C-level step clock (vsim/ext/vtrace.c)
* vshim   - LD_PRELOAD libc interposer for filesystem faults
            (vsim/shim/vshim.c)

Run by MANIFEST.setup_cmd and, on demand, by any check that finds them
missing or older than their source.  Uses only the installed gcc.
"""

import os
import subprocess
import sys
import sysconfig

from . import VERIF

BUILD = os.path.join(VERIF, 'build')
EXT_SUFFIX = sysconfig.get_config_var('EXT_SUFFIX')


def _stale(target, source):
    return (not os.path.exists(target)
            or os.path.getmtime(target) < os.path.getmtime(source))


def _compile(args, target):
    tmp = '{}.{}.tmp'.format(target, os.getpid())
    subprocess.run(args + ['-o', tmp], check=True)
    os.replace(tmp, target)


def build_vtrace():
    source = os.path.join(VERIF, 'vsim', 'ext', 'vtrace.c')
    target = os.path.join(BUILD, 'vtrace' + EXT_SUFFIX)

    if _stale(target, source):
        os.makedirs(BUILD, exist_ok=True)
        include = sysconfig.get_paths()['include']
        _compile(['gcc', '-O2', '-shared', '-fPIC', '-I' + include, source],
                 target)

    return target


def build_vshim():
    source = os.path.join(VERIF, 'vsim', 'shim', 'vshim.c')
    target = os.path.join(BUILD, 'vshim.so')

    if not os.path.exists(source):
        return None

    if _stale(target, source):
        os.makedirs(BUILD, exist_ok=True)
        _compile(['gcc', '-O2', '-shared', '-fPIC', source, '-ldl'], target)

    return target


def ensure():
    build_vtrace()
    build_vshim()

    if BUILD not in sys.path:
        sys.path.insert(0, BUILD)


if __name__ == '__main__':
    ensure()
    print('built:', sorted(os.listdir(BUILD)))
