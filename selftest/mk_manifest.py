import json
NA = {
 'C01': 'Round trip decode(encode(v)) == v is a relation between the arguments and the result of calls on an immutable compiled type: no schedule, clock, fault or history can change it; input generation or proof decides it, not a simulator (DESIGN.md section 4).',
 'C02': 'JER/XER round trip and well-formedness: pure function of (module, value); nothing for a simulator to own.',
 'C03': 'DER canonical form: equality of encoder output with an independent X.690 encoder; pure function of (module, value).',
 'C04': 'BER decoder accepting every valid form: decode applied to re-serialisations of one encoding; the rewrites are inputs, not faults of an environment the code touches.',
 'C05': 'PER/UPER bit exactness against X.691: pure function; needs a reference encoder, not a simulator.',
 'C06': 'OER byte exactness against X.696: pure function; needs a reference encoder, not a simulator.',
 'C07': 'Extension-addition interoperability: every (V1, V2, value) triple is decided by two stateless calls; a rolling-upgrade simulation would only choose which encoder/decoder pairing runs and cannot influence the outcome.',
 'C09': 'Generated UPER C code: compile-and-run translation validation of a pure generator; the generated code has no allocation, I/O, clock or threads; destination size is an argument, not an injected fault.',
 'C10': 'Generated OER C code: same as C09.',
 'C11': 'check_constraints exactness: a predicate on one (module, value); no state survives a call (statelessness itself is C18).',
 'C12': 'Error path text: a function of one (module, value) and one call.',
 'C14': 'Parser layout independence: pure function of the text.',
 'C19': 'Independence of text organisation: compares compilations of different texts; declaration order is program structure, not a schedule.',
 'C20': 'GSER well-formedness: pure function of (module, value); needs an independent reader, not a simulator.',
}
checks = []
def chk(pid, level, text, note, technique, ref):
    checks.append({
        'property_id': pid,
        'quick_cmd': './check %s --tier quick' % pid,
        'thorough_cmd': './check %s --tier thorough' % pid,
        'evidence_file': 'evidence/%s.json' % pid,
        'replay_cmd_template': './check %s --replay {path}' % pid,
        'engine': {'C08':'wire','C15':'wire','C16':'wire','C13':'dicthist','C17':'cachesim','C18':'threadsim'}[pid],
        'level_claimed': {'category': level, 'text': text, 'design_ref': ref},
        'level_note': note,
        'technique': technique,
    })
chk('C16','fault_enumeration',
    'Sender-crash fault enumerated completely per message: every byte-prefix length 0..len-1 of every generated encoding (<= 1 KiB; boundary +-3 and 128 seeded cuts for longer ones) is delivered to the real decoder under a deterministic step clock; must raise asn1tools.DecodeError. Modules, types and values are a seeded swarm sample, so this is evidence for the outer space and exhaustive only for cut points.',
    'Trusts the harness-side precondition (the un-cut encoding decodes and re-encodes to the same octets) and the step clock (line events inside /repo/asn1tools).',
    'deterministic simulation: seeded sender/channel/receiver with crash-point enumeration (cut@k) per message', 'DESIGN.md 3 C16')
chk('C08','exploration',
    'Seeded simulation of a long-lived receiver fed by a faulty datagram channel (25+ fault recipes incl. structure-aware BER tampering and compound faults) over seeded modules, all seven decoding codecs; bounded liveness in simulated time (step budget linear in input length) and in wall-clock time (a worker that never returns is blamed, re-run alone in a subprocess and reported as a hang), sampled memory bound, and no-residue check against a reference specification (amplified by replaying the traffic while the compiled type graph keeps changing) plus end-of-run behaviour digest. Plus cost-guided search (climb items): a population of inputs per type is mutated for up to 600 generations with the step clock as fitness (fraction of the liveness budget used), which reaches super-linear decoders that single faults do not.',
    'Step clock counts Python line events in asn1tools only (C-level work inside one call is invisible); memory via tracemalloc on sampled runs + RLIMIT_AS; zero-width list elements / one-character alphabets are excluded for PER/UPER/OER by construction (documented scope restriction).',
    'deterministic simulation: seeded fault-injecting datagram channel, step-clock liveness budget, history/residue oracle', 'DESIGN.md 3 C08')
chk('C15','exploration',
    'Seeded stream simulation: 1-20 real encodings (1-5 octet tags up to 2^28, contents up to 70000 octets) written back to back, optional garbage, close in mid-message, seeded segmentation down to 1-byte dribble; the canonical reassembly consumer calls the real decode_length / decode_with_length; oracles after every segment (no wrong / premature / late length, exact consumption, same value, exactly-once in-order delivery) plus direct enumeration of every header prefix length and a dozen tails per message (zeros, garbage, the next message, elements found inside the stream\'s own messages); BER messages also re-framed with a non-minimal long-form length; a message whose decode alone fails must fail whatever follows it.',
    'The consumer loop is harness code written from the documented contract; true message boundaries come from the harness-side TLV walker on encoder output.',
    'deterministic simulation: seeded byte-stream segmentation/close faults around the real framing helpers, history oracle (exactly-once, ordered)', 'DESIGN.md 3 C15')
chk('C18','exploration',
    'Seeded schedule simulation: one shared Specification, 1-8 real caller threads whose interleaving is decided line by line (in 10% of the runs bytecode by bytecode) by the simulator (random switch p in {0.001..0.5}, PCT, round-robin, sequential), up to 50 mixed valid / corrupted / truncated / bit-flipped / structurally re-built (element dropped, doubled or swapped with all lengths recomputed) operations (encode, decode, and for BER/DER decode_with_length / decode_length) concentrated on a few hot types with fail-then-valid follow-ups, optional MemoryError injected at an arbitrary tick; every outcome compared with the same call alone on a freshly compiled Specification; inputs compared before/after; post-state behaviour digest and sequential re-sweep, amplified (history replayed up to 60 times) whenever the compiled type graph is no longer what it was after compile. Plus exhaustive single-pre-emption sweeps: for two operations on the same type every schedule "A runs k ticks, B runs to its end, A finishes" for every k and both roles (a seeded sample of k when k * ticks exceeds 2*10^7) - for a seeded pair and for the same failing call on both threads, once per kind of failure that occurs in the case.',
    'Pre-emption granularity is one Python source line inside /repo/asn1tools; races inside a line or inside C code are not explored. Operations whose reference run exhausts the step budget are excluded.',
    'deterministic simulation: baton-passing thread scheduler with seeded/explicit schedules, sequential reference model, fault injection (failing ops, allocation failure)', 'DESIGN.md 3 C18')
chk('C13','exploration',
    'Seeded histories on one shared parsed dictionary (up to 6 compile_dict calls over 8 codecs + an unknown codec x numeric_enums, interleaved with pre_process_dict, pformat/exec persistence in memory and through the real .py loading path, deepcopy, CLI double compile) compared after every compile with compile_string on a fresh parse (outcome class and behaviour digest); all 256 ordered (codec, flag) pairs, 16 persisted-first and 4 persisted-after-compile histories enumerated on each hand-written corpus module (defaults of every kind incl. REAL / time / value-reference enumerations, COMPONENTS OF across modules in non-alphabetical order, parameterized types within and across modules, names that are both values and named numbers, ANY DEFINED BY with all with/without any_defined_by_choices orders).',
    'Behavioural equality is decided on a seeded probe set per type (valid values, one corrupted value, one malformed input, decode_length prefixes), not on all values.',
    'deterministic simulation: seeded operation histories over persistent shared state against a fresh-parse reference model, with persist/restore steps', 'DESIGN.md 3 C13')
chk('C17','exploration',
    'Seeded histories of compiler processes on one shared cache directory: real compile_files + diskcache + sqlite on a real filesystem under an LD_PRELOAD libc interposer; edits of the sources, option changes (numeric_enums, any_defined_by_choices, encoding, file boundaries), compiles killed at libc call n (KILL / TORN write) or at a Python tick, compiles under ENOSPC/EIO/EDQUOT and short writes, truncate / delete / zero-page / bit-flip (random, identifier-preserving, identifier-targeted) damage between processes, and a concurrent editor that rewrites the sources at Python tick n of a running compile (swept over every 16th / every tick of a compile in the quick / thorough tier); every returned specification compared (behaviour digest) with the uncached compile; errors allowed only after damage or under in-flight I/O errors, recovery required after kills and once I/O errors stop. Plus exhaustive sweeps: every libc crash point (KILL and TORN) of the crashing operation of fixed scenarios (one, plus a KILL-only one on a large module, in the quick tier; six in the thorough tier), counted and executed in the directory state each point starts from.',
    'Crash = process kill (completed writes survive); power loss and concurrent writers are not simulated. Compiler children are forks of the driver; in killed children the parse+compile step is replaced by the result the same real code produced in the driver (the cache logic, diskcache and sqlite stay real; every 8th sweep point and 20% of random crash ops run fully real). Un-faulted compiles mostly run in the driver process.',
    'deterministic simulation: seeded crash / I-O-fault / damage histories over real storage behind a libc fault seam, uncached reference model, exhaustive crash-point sweeps', 'DESIGN.md 3 C17')
m = {
 'version': 1,
 'setup_cmd': '/venv/bin/python -m vsim.build',
 'hooks': {
   'guard': 'ASN1TOOLS_VERIF',
   'enable': 'no source hooks are needed: pre-emption points and step budgets come from a C-level PyEval_SetTrace clock (vsim/ext/vtrace.c), filesystem faults from an LD_PRELOAD libc interposer, transports are harness-side; checks import asn1tools from the /repo working tree',
   'baseline_off_cmd': 'cd /repo && /venv/bin/python -m pytest -ra -q -p no:cacheprovider --timeout=900 --continue-on-collection-errors',
   'source_commits': [],
   'add_only': True,
 },
 'engines': [
   {'name':'threadsim','path':'vsim/sched.py','serves_properties':['C18'],'kind_free_text':'deterministic baton-passing scheduler over real threads; pre-emption at line events of a C-level step clock'},
   {'name':'dicthist','path':'checks/c13.py','serves_properties':['C13'],'kind_free_text':'operation histories on one long-lived specification dictionary with persist/restore, against a fresh-parse reference'},
   {'name':'cachesim','path':'checks/c17.py','serves_properties':['C17'],'kind_free_text':'forked compiler processes over a real diskcache/sqlite directory under a libc fault interposer (vsim/shim/vshim.c, vsim/fsfault.py)'},
   {'name':'wire','path':'vsim/wire.py','serves_properties':['C08','C15','C16'],'kind_free_text':'simulated byte channel (datagram and stream) with explicit fault descriptors between a real encoder and a real decoder, under a deterministic step clock'},
 ],
 'checks': checks,
 'notes': 'All checks: exit 0 = held (KNOWN-FINDING lines allowed), exit 1 = VIOLATION line(s) with a minimised replay file re-run in a fresh interpreter, exit 2 = harness failure. VERIF_SEED selects the root seed; VERIF_WORKERS the number of worker processes.',
 'not_applicable': [{'property_id': k, 'reason': v} for k, v in sorted(NA.items())],
}
json.dump(m, open('/verif/MANIFEST.json','w'), indent=1)
