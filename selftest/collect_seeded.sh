#!/bin/bash
# usage: collect_seeded.sh <worktree> <seeded-id> <PROPERTY>
# Confirms a sub-agent's seeded change (tests still pass, demo fails with the
# change and passes without it) and stores it under /verif/seeded/<id>/.
set -u
wt=$1; id=$2; prop=$3
out=/verif/seeded/$id
mkdir -p $out
git -C $wt diff -- asn1tools > $out/patch.diff
cp $wt/DEMO.py $out/DEMO.py 2>/dev/null
cp $wt/NOTES.md $out/NOTES.md 2>/dev/null
echo "== patch: $(wc -l < $out/patch.diff) lines, files: $(grep -c '^diff' $out/patch.diff)"
echo "== tests with change"
tests=$(cd $wt && timeout 1200 /venv/bin/python -m pytest -q -p no:cacheprovider -W ignore -n 8 tests 2>&1 | tail -1)
echo "$tests"
echo "== demo with change"
(cd $wt && timeout 300 /venv/bin/python DEMO.py > /tmp/demo_with.txt 2>&1); with=$?
tail -3 /tmp/demo_with.txt
git -C $wt apply -R $out/patch.diff   # (git stash is shared between worktrees: do not use it)
echo "== demo without change"
(cd $wt && timeout 300 /venv/bin/python DEMO.py > /tmp/demo_without.txt 2>&1); without=$?
tail -2 /tmp/demo_without.txt
git -C $wt apply $out/patch.diff
echo "demo exit with=$with without=$without"
cat > $out/meta.json <<EOM
{
 "property": "$prop",
 "source": "independent sub-agent, given only the property record and a scratch worktree",
 "tests_with_change": "$tests",
 "demo_exit_with_change": $with,
 "demo_exit_without_change": $without,
 "needs": "see NOTES.md",
 "ran": "pytest tests (worktree, with change); DEMO.py with change and after git stash; selftest/sensitivity.py $id"
}
EOM
