#!/venv/bin/python
"""Sensitivity self-test (DESIGN 2.10): every mutant patch under
selftest/mutants/ (and every seeded change under seeded/<id>/patch.diff) is
applied to a scratch copy of /repo; the check of the property it breaks must
report a VIOLATION within the quick budget.  The scratch copy lives under
$TMPDIR and is removed afterwards.

usage: selftest/sensitivity.py [--tier quick] [name-substring ...]
"""

import json
import os
import shutil
import subprocess
import sys
import tempfile
import time

HERE = os.path.dirname(os.path.abspath(__file__))
VERIF = os.path.dirname(HERE)
REPO = '/repo'


def mutants():
    found = []
    directory = os.path.join(HERE, 'mutants')

    for name in sorted(os.listdir(directory)):
        if name.endswith('.patch'):
            found.append((name[:-6], name.split('-')[0].upper(),
                          os.path.join(directory, name), None))

    seeded = os.path.join(VERIF, 'seeded')

    if os.path.isdir(seeded):
        for name in sorted(os.listdir(seeded)):
            meta = os.path.join(seeded, name, 'meta.json')
            patch = os.path.join(seeded, name, 'patch.diff')

            if os.path.exists(meta) and os.path.exists(patch):
                with open(meta) as fin:
                    data = json.load(fin)

                found.append(('seeded/' + name, data['property'], patch,
                              data.get('base')))

    return found


def run_one(name, prop, patch, base, tier, extra):
    scratch = tempfile.mkdtemp(prefix='vsim-mutant-')

    try:
        subprocess.run(['git', '-C', REPO, 'worktree', 'prune'], check=False,
                       stdout=subprocess.DEVNULL)
        shutil.copytree(os.path.join(REPO, 'asn1tools'),
                        os.path.join(scratch, 'asn1tools'))
        proc = subprocess.run(['patch', '-p1', '-s', '-d', scratch, '-i',
                               patch], stdout=subprocess.PIPE,
                              stderr=subprocess.STDOUT)

        if proc.returncode != 0 and base:
            # The change no longer applies to the working tree: evaluate it
            # on the commit it was written for.
            shutil.rmtree(os.path.join(scratch, 'asn1tools'))
            archive = subprocess.run(['git', '-C', REPO, 'archive', base,
                                      'asn1tools'], stdout=subprocess.PIPE,
                                     check=True)
            subprocess.run(['tar', '-x', '-C', scratch], input=archive.stdout,
                           check=True)
            proc = subprocess.run(['patch', '-p1', '-s', '-d', scratch, '-i',
                                   patch], stdout=subprocess.PIPE,
                                  stderr=subprocess.STDOUT)
            name += '@' + base

        if proc.returncode != 0:
            return 'PATCH-FAILED', proc.stdout.decode()[-300:], 0

        env = dict(os.environ, VSIM_REPO=scratch,
                   VSIM_REPLAY_DIR=os.path.join(scratch, 'replays'))
        start = time.time()
        proc = subprocess.run([os.path.join(VERIF, 'check'), prop, '--tier',
                               tier, '--no-evidence'] + extra,
                              env=env, stdout=subprocess.PIPE,
                              stderr=subprocess.STDOUT, timeout=3600)
        wall = time.time() - start
        text = proc.stdout.decode()
        lines = [line for line in text.splitlines()
                 if line.startswith(('VIOLATION', '  class=', 'HARNESS',
                                     'KNOWN'))]

        if proc.returncode == 1 and 'VIOLATION property=' + prop in text:
            return 'CAUGHT', '\n'.join(lines[:4]), wall

        return 'MISSED(exit={})'.format(proc.returncode), \
            '\n'.join(lines[:4]) or text[-400:], wall
    finally:
        shutil.rmtree(scratch, ignore_errors=True)


def main():
    args = sys.argv[1:]
    tier = 'quick'
    extra = []

    if '--tier' in args:
        index = args.index('--tier')
        tier = args[index + 1]
        del args[index:index + 2]

    if '--runs' in args:
        index = args.index('--runs')
        extra = ['--runs', args[index + 1]]
        del args[index:index + 2]

    missed = 0

    for name, prop, patch, base in mutants():
        if args and not any(a in name for a in args):
            continue

        verdict, detail, wall = run_one(name, prop, patch, base, tier, extra)
        print('{:<10} {:<5} {:<40} {:.0f}s'.format(verdict, prop, name, wall),
              flush=True)

        if verdict != 'CAUGHT':
            missed += 1

        for line in detail.splitlines():
            print('      ' + line[:300])

    return 1 if missed else 0


if __name__ == '__main__':
    sys.exit(main())
