#!/venv/bin/python
"""Create selftest/mutants/<name>.patch from an exact-string replacement.

usage: mkmutant.py <name> <file relative to /repo> <<< 'OLD\n=====\nNEW'
"""
import difflib, os, sys
name, rel = sys.argv[1], sys.argv[2]
old, new = sys.stdin.read().split('\n=====\n')
new = new.rstrip('\n') + '\n' if old.endswith('\n') else new.rstrip('\n')
path = os.path.join('/repo', rel)
text = open(path).read()
assert text.count(old) == 1, 'old text occurs {} times'.format(text.count(old))
mutated = text.replace(old, new)
diff = difflib.unified_diff(text.splitlines(True), mutated.splitlines(True), 'a/' + rel, 'b/' + rel)
out = os.path.join(os.path.dirname(os.path.abspath(__file__)), 'mutants', name + '.patch')
open(out, 'w').write(''.join(diff))
print('wrote', out)
