#!/venv/bin/python
"""Runs the repository's pinned test suite (command from /root/.vp/BASELINE.json)
and compares the passing set with BASELINE.stable_pass.  Exit 0 iff every
stable_pass test passes."""
import json, os, subprocess, sys, tempfile
import xml.etree.ElementTree as ET
base = json.load(open('/root/.vp/BASELINE.json'))
out = tempfile.mktemp(suffix='.xml')
cmd = base['cmd'].replace('<file>', out)
proc = subprocess.run(cmd, shell=True, stdout=subprocess.PIPE, stderr=subprocess.STDOUT)
passed = set()
for case in ET.parse(out).getroot().iter('testcase'):
    if not any(child.tag in ('failure', 'error', 'skipped') for child in case):
        passed.add('{}::{}'.format(case.get('classname'), case.get('name')))
os.unlink(out)
missing = sorted(set(base['stable_pass']) - passed)
print('passed {} / stable_pass {} ; missing {}'.format(len(passed), len(base['stable_pass']), len(missing)))
for name in missing[:20]:
    print('  NOT PASSING:', name)
sys.exit(1 if missing else 0)
