#!/venv/bin/python
"""Determinism self-test (DESIGN 2.10).

For every engine, the same VERIF_SEED is run several times in fresh
interpreters - with PYTHONHASHSEED 0 and 12345, with 1 and 16 workers - and
the per-run SHA-256 hashes of the full event logs (operations, outcomes,
switch traces, tick counts, syscall-level histories) are compared.

usage: selftest/determinism.py [--runs N] [ID ...]
"""

import json
import os
import subprocess
import sys
import tempfile

HERE = os.path.dirname(os.path.abspath(__file__))
VERIF = os.path.dirname(HERE)
DEFAULT_RUNS = {'C08': 200, 'C13': 60, 'C15': 200, 'C16': 200, 'C17': 24,
                'C18': 200}
CONFIGS = [('0', '16'), ('0', '1'), ('12345', '16'), ('0', '16')]


def run(prop, runs, hashseed, workers, seed):
    with tempfile.NamedTemporaryFile(suffix='.json', delete=False) as f:
        path = f.name

    env = dict(os.environ, VSIM_HASHSEED=hashseed, VERIF_SEED=str(seed),
               VERIF_WALL_CAP='100000')
    env.pop('PYTHONHASHSEED', None)
    proc = subprocess.run([os.path.join(VERIF, 'check'), prop, '--runs',
                           str(runs), '--workers', workers, '--no-evidence',
                           '--log-hashes', path], env=env,
                          stdout=subprocess.PIPE, stderr=subprocess.STDOUT)

    try:
        with open(path) as fin:
            hashes = json.load(fin)
    except Exception:
        hashes = None
    finally:
        os.unlink(path)

    return proc.returncode, hashes, proc.stdout.decode()[-400:]


def main():
    args = sys.argv[1:]
    runs_override = None

    if '--runs' in args:
        index = args.index('--runs')
        runs_override = int(args[index + 1])
        del args[index:index + 2]

    props = [a.upper() for a in args] or sorted(DEFAULT_RUNS)
    bad = 0

    for prop in props:
        runs = runs_override or DEFAULT_RUNS[prop]
        baseline = None

        for hashseed, workers in CONFIGS:
            code, hashes, tail = run(prop, runs, hashseed, workers, 1)

            if hashes is None or code not in (0, 1):
                print('{}: run failed (exit {}): {}'.format(prop, code, tail))
                bad += 1
                break

            if baseline is None:
                baseline = hashes
                print('{}: {} event logs recorded (PYTHONHASHSEED={} '
                      'workers={})'.format(prop, len(hashes), hashseed,
                                           workers), flush=True)
                continue

            different = [i for i, (a, b) in enumerate(zip(baseline, hashes))
                         if a != b]

            if different or len(hashes) != len(baseline):
                print('{}: NONDETERMINISTIC under PYTHONHASHSEED={} '
                      'workers={}: {} of {} logs differ (first: item {})'
                      .format(prop, hashseed, workers, len(different),
                              len(baseline), different[:5]))
                bad += 1
            else:
                print('{}: identical under PYTHONHASHSEED={} workers={}'
                      .format(prop, hashseed, workers), flush=True)

    return 1 if bad else 0


if __name__ == '__main__':
    sys.exit(main())
